(* C01 — SVD, first stage of svd_mut continued: the whole bidiagonalisation loop, the accumulation
   of the right-hand (V) and left-hand (U) transformations, and the resulting factorisation
   A = U B V^T with orthonormal columns (exact arithmetic). *)
From Coq Require Import List Arith Bool ZArith Reals Lra Lia.
From SC Require Import Base.Num C01.Model C01.Proofs C01.Proofs_qr C01.Proofs_svd C01.Proofs_svd_refl C01.Proofs_svd_bidiag.
Import ListNotations.  Open Scope R_scope.

Definition bd_init (A : @Mx R) : @bidiag_st R := mkBD A (zerov ROps) (zerov ROps) 0 0 0.
Definition svd_bd (cs : R -> R -> R) (m n : nat) (A : @Mx R) : @bidiag_st R :=
  for_up n 0 (bidiag_step ROps cs m n) (bd_init A).

Lemma bd_inv_init m n A : bd_inv m n A 0 (bd_init A).
Proof.
  unfold bd_inv, bd_init. cbn [bU bw brv1 bg bscale]. cbv zeta. cbn [app_up].
  split; [|split; [|split; [|split; [|split; [|split]]]]].
  - intros x y. apply bil_ext; auto.
  - intros; lia.
  - intros; lia.
  - intros; lia.
  - unfold epend. cbn. ring.
  - intros; lia.
  - intros; lia.
Qed.
Lemma svd_bd_inv cs m n A : cs_spec cs -> bd_inv m n A n (svd_bd cs m n A).
Proof.
  intros Hcs. unfold svd_bd. apply (for_up_inv (fun c st => bd_inv m n A c st)).
  - apply bd_inv_init.
  - intros c st Hc Hi. cbn [Nat.add]. destruct (le_lt_dec m c).
    + apply bd_inv_step_skip; assumption.
    + apply bd_inv_step; assumption.
Qed.

(* reflectors that do not meet the support of x do nothing *)
Lemma app_dn_tail N u h cnt d x :
  (forall t, (cnt <= t < cnt + d)%nat -> forall i, (i < N)%nat -> u t i = 0 \/ x i = 0) ->
  forall i, (i < N)%nat -> app_dn N u h (cnt + d) x i = app_dn N u h cnt x i.
Proof.
  induction d as [|d IH]; intros H i Hi; [rewrite Nat.add_0_r; reflexivity|].
  rewrite Nat.add_succ_r. cbn [app_dn].
  rewrite <- IH by (try assumption; intros t Ht; apply H; lia).
  apply app_dn_ext; [apply fam_agree_refl| |assumption].
  intros r Hr. apply hrefl_orth. unfold dot. apply rsum_zero. intros j Hj.
  destruct (H (cnt + d)%nat ltac:(lia) j Hj) as [E|E]; rewrite E; ring.
Qed.

Lemma invertible_R minpos g : invertible ROps minpos g = true <-> minpos <= Rabs g.
Proof. unfold invertible. cbn [oleb oabs ROps]. apply Rleb_true. Qed.
Lemma invertible_nz minpos g : 0 < minpos -> invertible ROps minpos g = true -> g <> 0.
Proof. intros Hp H E. apply invertible_R in H. rewrite E, Rabs_R0 in H. lra. Qed.

(* ---------- accumulation of the right-hand transformations ---------- *)
Lemma zero_cross_loop cnt l i (v1 : @Mx R) r k : (i < l)%nat ->
  for_up cnt l (fun j vx => upd (upd vx i j 0) j i 0) v1 r k =
  if ((Nat.eqb r i && ((l <=? k) && (k <? l + cnt))) || (Nat.eqb k i && ((l <=? r) && (r <? l + cnt))))%bool
  then 0 else v1 r k.
Proof.
  intros Hil. revert r k.
  apply (for_up_inv (fun c vx => forall r k, vx r k =
    if ((Nat.eqb r i && ((l <=? k) && (k <? l + c))) || (Nat.eqb k i && ((l <=? r) && (r <? l + c))))%bool
    then 0 else v1 r k)).
  - intros r k. bdestr.
  - intros c vx Hc Hv r k. rewrite !upd_eq, Hv. bdestr.
Qed.

Definition Vinv (n : nat) (W : @Mx R) (e : nat -> R) (c : nat) (st : @Mx R * R * nat) : Prop :=
  let '(v, g, l) := st in
  (forall r k, (r < n)%nat -> (k < n)%nat -> (k < c \/ r < c)%nat -> v r k = 0) /\
  (forall r k, (r < n)%nat -> (c <= k < n)%nat ->
     app_dn n (vR n W) (hR W e) c (fun r' => v r' k) r = app_dn n (vR n W) (hR W e) n (evec k) r) /\
  ((c < n)%nat -> g = e c /\ l = c).

Lemma evec_col_tail n W e i r : (i < n)%nat -> (r < n)%nat ->
  app_dn n (vR n W) (hR W e) i (evec i) r = app_dn n (vR n W) (hR W e) n (evec i) r.
Proof.
  intros Hi Hr. rewrite <- (app_dn_tail n (vR n W) (hR W e) i (n - i) (evec i)).
  - replace (i + (n - i))%nat with n by lia. reflexivity.
  - intros t Ht j Hj. unfold vR, rowpad, evec. bdestr; auto.
  - assumption.
Qed.

Lemma accum_v_step_inv minpos n W rv1 e i st : 0 < minpos -> (i < n)%nat ->
  (forall t, (t < n)%nat -> e t = rv1 t) ->
  (forall t, (t < n)%nat -> e t = 0 \/ invertible ROps minpos (e t) = true) ->
  (forall t, (t < n)%nat -> e (t + 1)%nat = 0 -> forall k, (t + 1 <= k < n)%nat -> W t k = 0) ->
  Vinv n W e (S i) st -> Vinv n W e i (accum_v_step ROps minpos n W rv1 i st).
Proof.
  intros Hmp Hi Herv Hinv HI4. destruct st as [[v g] l]. intros (V1 & V2 & V3).
  unfold accum_v_step.
  assert (Hcol_i : forall v' : @Mx R, (forall r, (r < n)%nat -> v' r i = evec i r) -> forall r, (r < n)%nat ->
            app_dn n (vR n W) (hR W e) i (fun r' => v' r' i) r = app_dn n (vR n W) (hR W e) n (evec i) r).
  { intros v' Hv' r Hr. rewrite <- evec_col_tail by assumption.
    apply app_dn_ext; [apply fam_agree_refl|exact Hv'|assumption]. }
  destruct (Nat.ltb_spec i (n - 1)) as [Hlt|Hge].
  - destruct (V3 ltac:(lia)) as [-> ->]. clear V3.
    replace (S i) with (i + 1)%nat in * by lia.
    set (l := (i + 1)%nat) in *.
    set (g := e l) in *.
    cbv beta iota zeta.
    match goal with |- context [if invertible ROps minpos g then ?X else v] =>
      set (v1 := if invertible ROps minpos g then X else v) end.
    assert (HA : forall r k, (r < n)%nat -> (l <= k < n)%nat ->
               v1 r k = hrefl n (vR n W i) (hR W e i) (fun r' => v r' k) r).
    { intros r k Hr Hk. unfold v1. destruct (invertible ROps minpos g) eqn:Eg.
      - pose proof (invertible_nz minpos g Hmp Eg) as Hg.
        cbn [oadd omul odiv ROps].
        set (va := for_up (n - l) l (fun j vx => upd vx j i (W i j / W i l / g)) v).
        assert (Hva : forall r k, va r k =
           if (Nat.eqb k i && ((l <=? r) && (r <? l + (n - l))))%bool then W i r / W i l / g else v r k).
        { intros r0 k0. unfold va.
          apply (col_loop (n - l) l i (fun j vx => W i j / W i l / g) (fun r => W i r / W i l / g)).
          intros; reflexivity. }
        rewrite (col_axpy_loop (n - l) l l (n - l) i
                   (fun X j => sum_from ROps l (n - l) (fun k => W i k * X k j)) va) by
          (try (unfold l; lia); intros X j H1 H2; rewrite !sum_from_rsum; apply rsum_ext; intros; rewrite H1; reflexivity).
        destruct (le_lt_dec l r) as [Hlr|Hlr].
        + replace ((((l <=? k) && (k <? l + (n - l))) && ((l <=? r) && (r <? l + (n - l)))))%bool
            with true by (symmetry; bdestr).
          rewrite !Hva.
          replace (Nat.eqb k i && ((l <=? r) && (r <? l + (n - l))))%bool with false by (symmetry; unfold l in *; bdestr).
          replace (Nat.eqb i i && ((l <=? r) && (r <? l + (n - l))))%bool with true by (symmetry; bdestr).
          unfold hrefl.
          assert (Ed : dot n (vR n W i) (fun r' => v r' k) = sum_from ROps l (n - l) (fun k0 => W i k0 * va k0 k)).
          { unfold vR. rewrite dot_rowpad_shift by (unfold l in *; lia). rewrite sum_from_rsum. fold l.
            apply rsum_ext. intros t Ht. rewrite Hva. unfold l in *. bdestr. }
          rewrite Ed. unfold hR, hinv_of. fold l. fold g.
          destruct (Req_EM_T g 0) as [E0|_]; [contradiction|].
          unfold vR, rowpad. replace ((i + 1 <=? r) && (r <? n))%bool with true by (symmetry; unfold l in *; bdestr).
          unfold Rdiv. rewrite Rinv_mult. ring.
        + replace ((((l <=? k) && (k <? l + (n - l))) && ((l <=? r) && (r <? l + (n - l)))))%bool
            with false by (symmetry; bdestr).
          rewrite Hva. replace (Nat.eqb k i && ((l <=? r) && (r <? l + (n - l))))%bool with false by (symmetry; bdestr).
          rewrite hrefl_out; [reflexivity|]. unfold vR, rowpad. unfold l in *. bdestr.
      - destruct (Hinv l ltac:(unfold l; lia)) as [E0|E0]; [|fold g in E0; congruence].
        rewrite hrefl_id; [reflexivity| |assumption].
        intros j Hj. unfold vR, rowpad. bdestr. apply (HI4 i); try assumption; lia. }
    assert (HB : forall r k, (k < i \/ (k = i /\ r <= i))%nat -> v1 r k = v r k).
    { intros r k Hk. unfold v1. destruct (invertible ROps minpos g) eqn:Eg; [|reflexivity].
      cbn [oadd omul odiv ROps].
      set (va := for_up (n - l) l (fun j vx => upd vx j i (W i j / W i l / g)) v).
      assert (Hva : forall r k, va r k =
         if (Nat.eqb k i && ((l <=? r) && (r <? l + (n - l))))%bool then W i r / W i l / g else v r k).
      { intros r0 k0. unfold va.
        apply (col_loop (n - l) l i (fun j vx => W i j / W i l / g) (fun r => W i r / W i l / g)).
        intros; reflexivity. }
      rewrite (col_axpy_loop (n - l) l l (n - l) i
                 (fun X j => sum_from ROps l (n - l) (fun k => W i k * X k j)) va) by
        (try (unfold l; lia); intros X j H1 H2; rewrite !sum_from_rsum; apply rsum_ext; intros; rewrite H1; reflexivity).
      replace ((((l <=? k) && (k <? l + (n - l))) && ((l <=? r) && (r <? l + (n - l)))))%bool
        with false by (symmetry; unfold l in *; bdestr).
      rewrite Hva. unfold l in *. bdestr. }
    clearbody v1.
    assert (Hv' : forall r k, (r < n)%nat -> (k < n)%nat ->
       freeze ROps n n (upd (for_up (n - l) l (fun j vx => upd (upd vx i j (o0 ROps)) j i (o0 ROps)) v1) i i (o1 ROps)) r k =
       if (Nat.eqb r i && Nat.eqb k i)%bool then 1
       else if ((Nat.eqb r i && ((l <=? k) && (k <? n))) || (Nat.eqb k i && ((l <=? r) && (r <? n))))%bool then 0
       else v1 r k).
    { intros r k Hr Hk. rewrite freeze_in by assumption. rewrite upd_eq.
      cbn [o0 o1 ROps]. rewrite zero_cross_loop by (unfold l; lia). unfold l in *. bdestr. }
    split; [|split].
    + intros r k Hr Hk Hlt'. rewrite Hv' by assumption.
      destruct Hlt' as [Hki|Hri].
      * replace (Nat.eqb r i && Nat.eqb k i)%bool with false by (symmetry; bdestr).
        replace ((Nat.eqb r i && ((l <=? k) && (k <? n))) || (Nat.eqb k i && ((l <=? r) && (r <? n))))%bool
          with false by (symmetry; unfold l in *; bdestr).
        rewrite HB by lia. apply V1; try assumption. unfold l. lia.
      * replace (Nat.eqb r i && Nat.eqb k i)%bool with false by (symmetry; bdestr).
        replace ((Nat.eqb r i && ((l <=? k) && (k <? n))) || (Nat.eqb k i && ((l <=? r) && (r <? n))))%bool
          with false by (symmetry; unfold l in *; bdestr).
        destruct (lt_eq_lt_dec k i) as [[Hk1|Hk1]|Hk1].
        -- rewrite HB by lia. apply V1; try assumption. unfold l. lia.
        -- rewrite HB by lia. apply V1; try assumption. unfold l. lia.
        -- rewrite HA by (unfold l in *; lia). rewrite hrefl_out by (unfold vR, rowpad; bdestr).
           apply V1; try assumption. unfold l. lia.
    + intros r k Hr Hk. destruct (Nat.eq_dec k i) as [->|Hne].
      * apply Hcol_i; [|assumption]. intros r' Hr'. rewrite Hv' by assumption. unfold evec.
        destruct (Nat.eqb_spec r' i) as [->|Hn']; [rewrite Nat.eqb_refl; reflexivity|].
        cbn [andb orb]. rewrite Nat.eqb_refl. cbn [andb].
        destruct (le_lt_dec l r') as [H1|H1].
        -- replace ((l <=? r') && (r' <? n))%bool with true by (symmetry; bdestr). reflexivity.
        -- replace ((l <=? r') && (r' <? n))%bool with false by (symmetry; bdestr).
           rewrite HB by (unfold l in *; lia). apply V1; try assumption. unfold l. lia.
      * rewrite <- (V2 r k Hr ltac:(unfold l; lia)).
        change (app_dn n (vR n W) (hR W e) l (fun r' => v r' k) r)
          with (app_dn n (vR n W) (hR W e) (i + 1) (fun r' => v r' k) r).
        replace (i + 1)%nat with (S i) by lia. cbn [app_dn].
        apply app_dn_ext; [apply fam_agree_refl| |assumption].
        intros r' Hr'. rewrite Hv' by lia.
        replace (Nat.eqb k i) with false by (symmetry; bdestr). rewrite !andb_false_r. cbn [orb].
        destruct (Nat.eqb_spec r' i) as [->|Hn'].
        -- replace ((l <=? k) && (k <? n))%bool with true by (symmetry; unfold l in *; bdestr). cbn [andb].
           rewrite hrefl_out by (unfold vR, rowpad; bdestr). symmetry. apply V1; unfold l; lia.
        -- cbn [andb]. apply HA; [assumption|unfold l in *; lia].
    + intros _. split; [symmetry; apply Herv; assumption|reflexivity].
  - assert (i = n - 1)%nat by lia. clear V3. cbv beta iota zeta.
    assert (Hv' : forall r k, (r < n)%nat -> (k < n)%nat ->
       freeze ROps n n (upd v i i (o1 ROps)) r k = if (Nat.eqb r i && Nat.eqb k i)%bool then 1 else v r k).
    { intros r k Hr Hk. rewrite freeze_in by assumption. rewrite upd_eq. cbn [o1 ROps]. bdestr. }
    split; [|split].
    + intros r k Hr Hk Hlt'. rewrite Hv' by assumption.
      replace (Nat.eqb r i && Nat.eqb k i)%bool with false by (symmetry; bdestr). apply V1; try assumption. lia.
    + intros r k Hr Hk. assert (k = i) by lia. subst k.
      apply Hcol_i; [|assumption]. intros r' Hr'. rewrite Hv' by assumption. unfold evec.
      rewrite Nat.eqb_refl, andb_true_r. destruct (Nat.eqb_spec r' i); [reflexivity|].
      apply V1; try assumption. lia.
    + intros _. split; [symmetry; apply Herv; assumption|reflexivity].
Qed.

(* ---------- accumulation of the left-hand transformations ---------- *)
Definition Uinv (m n : nat) (W : @Mx R) (w : nat -> R) (c : nat) (U : @Mx R) : Prop :=
  (forall t r, (t < c)%nat -> (t <= r < m)%nat -> U r t = W r t) /\
  (forall r k, (r < m)%nat -> (c <= k < n)%nat ->
     app_dn m (uL m W) (hL W w) c (fun r' => if (r' <? c)%nat then 0 else U r' k) r =
     app_dn m (uL m W) (hL W w) n (evec k) r).

Lemma evec_colU_tail m n W w i r : (i < n)%nat -> (r < m)%nat ->
  app_dn m (uL m W) (hL W w) (S i) (evec i) r = app_dn m (uL m W) (hL W w) n (evec i) r.
Proof.
  intros Hi Hr. rewrite <- (app_dn_tail m (uL m W) (hL W w) (S i) (n - S i) (evec i)).
  - replace (S i + (n - S i))%nat with n by lia. reflexivity.
  - intros t Ht j Hj. unfold uL, colpad, evec. bdestr; auto.
  - assumption.
Qed.

Lemma accum_u_step_inv minpos m n W w i U : 0 < minpos -> (i < n)%nat -> (i < m)%nat ->
  (w i = 0 \/ invertible ROps minpos (w i) = true) ->
  (w i = 0 -> forall r, (i <= r < m)%nat -> W r i = 0) ->
  (w i <> 0 -> W i i <> 0) ->
  Uinv m n W w (S i) U -> Uinv m n W w i (accum_u_step ROps minpos m n w i U).
Proof.
  intros Hmp Hi Hnm Hinv HI3 HI6 (Q1 & Q2).
  unfold accum_u_step. cbv zeta. cbn [oadd omul odiv o0 o1 ROps].
  set (l := (i + 1)%nat).
  set (U1 := for_up (n - l) l (fun j Ux => upd Ux i j 0) U).
  assert (HU1 : forall r k, U1 r k = if (Nat.eqb r i && ((l <=? k) && (k <? l + (n - l))))%bool then 0 else U r k).
  { intros r k. unfold U1. apply (row_loop (n - l) l i (fun _ _ => 0) (fun _ => 0)). intros; reflexivity. }
  clearbody U1.
  set (g := w i) in *.
  set (x := fun r k => if (r <? S i)%nat then 0 else U r k).
  assert (HUi : forall r, (i <= r < m)%nat -> U r i = W r i) by (intros; apply Q1; lia).
  match goal with |- Uinv m n W w i (freeze ROps m n (upd ?X i i (?X i i + 1))) => set (U2 := X) end.
  (* what the loops leave *)
  assert (HU2 : forall r k, (r < m)%nat -> (k < n)%nat ->
     U2 r k = if (k <? i)%nat then U r k
              else if Nat.eqb k i then (if (i <=? r)%nat then hrefl m (uL m W i) (hL W w i) (evec i) r - evec i r else U r i)
              else if (i <=? r)%nat then hrefl m (uL m W i) (hL W w i) (fun r' => x r' k) r else U r k).
  { intros r k Hr Hk. unfold U2. destruct (invertible ROps minpos g) eqn:Eg.
    - pose proof (invertible_nz minpos g Hmp Eg) as Hg. specialize (HI6 Hg).
      set (g' := 1 / g).
      match goal with |- context [for_up (n - l) l ?F U1] => set (Ua := for_up (n - l) l F U1) end.
      assert (HUa : forall r k, Ua r k =
         if (((l <=? k) && (k <? l + (n - l))) && ((i <=? r) && (r <? i + (m - i))))%bool
         then U1 r k + (sum_from ROps l (m - l) (fun k' => U1 k' i * U1 k' k) / U1 i i * g') * U1 r i else U1 r k).
      { intros r0 k0. unfold Ua.
        apply (col_axpy_loop (n - l) l i (m - i) i
                 (fun X j => sum_from ROps l (m - l) (fun k' => X k' i * X k' j) / X i i * g') U1); [unfold l; lia|].
        intros X j H1 H2. rewrite !sum_from_rsum. rewrite (H2 i). f_equal. f_equal. apply rsum_ext. intros t Ht.
        rewrite H1, H2. reflexivity. }
      clearbody Ua.
      rewrite (col_loop (m - i) i i (fun j Ux => Ux j i * g') (fun r => Ua r i * g'))
        by (intros c X Hc HX; rewrite HX; bdestr).
      assert (HhL : hL W w i = / W i i * / g).
      { unfold hL, hinv_of. fold g. destruct (Req_EM_T g 0) as [E0|_]; [contradiction|]. apply Rinv_mult. }
      destruct (lt_eq_lt_dec k i) as [[Hk1|Hk1]|Hk1].
      + replace (k <? i)%nat with true by (symmetry; bdestr).
        replace (Nat.eqb k i && ((i <=? r) && (r <? i + (m - i))))%bool with false by (symmetry; bdestr).
        rewrite HUa. replace ((l <=? k) && (k <? l + (n - l)))%bool with false by (symmetry; unfold l; bdestr).
        cbn [andb]. rewrite HU1. unfold l. bdestr.
      + subst k. replace (i <? i)%nat with false by (symmetry; bdestr). rewrite Nat.eqb_refl. cbn [andb].
        destruct (le_lt_dec i r) as [Hir|Hir].
        * replace (i <=? r)%nat with true by (symmetry; bdestr).
          replace (r <? i + (m - i))%nat with true by (symmetry; bdestr). cbn [andb].
          rewrite HUa. replace ((l <=? i) && (i <? l + (n - l)))%bool with false by (symmetry; unfold l; bdestr).
          cbn [andb]. rewrite HU1. replace ((l <=? i) && (i <? l + (n - l)))%bool with false by (symmetry; unfold l; bdestr).
          rewrite andb_false_r. rewrite HUi by lia.
          unfold hrefl. rewrite dot_evec_r by lia. rewrite HhL. unfold uL, colpad.
          replace ((i <=? i) && (i <? m))%bool with true by (symmetry; bdestr).
          replace ((i <=? r) && (r <? m))%bool with true by (symmetry; bdestr).
          unfold g'. field. split; assumption.
        * replace (i <=? r)%nat with false by (symmetry; bdestr). cbn [andb].
          rewrite HUa. replace ((l <=? i) && (i <? l + (n - l)))%bool with false by (symmetry; unfold l; bdestr).
          cbn [andb]. rewrite HU1. bdestr.
      + replace (k <? i)%nat with false by (symmetry; bdestr).
        replace (Nat.eqb k i) with false by (symmetry; bdestr). cbn [andb].
        rewrite HUa. replace ((l <=? k) && (k <? l + (n - l)))%bool with true by (symmetry; unfold l; bdestr).
        cbn [andb]. destruct (le_lt_dec i r) as [Hir|Hir].
        * replace (i <=? r)%nat with true by (symmetry; bdestr).
          replace (r <? i + (m - i))%nat with true by (symmetry; bdestr). cbn [andb].
          assert (E1 : forall r', (i <= r' < m)%nat -> U1 r' k = x r' k).
          { intros r' Hr'. rewrite HU1. unfold x, l. bdestr. }
          assert (E2 : forall r', (i <= r' < m)%nat -> U1 r' i = W r' i).
          { intros r' Hr'. rewrite HU1. replace ((l <=? i) && (i <? l + (n - l)))%bool with false by (symmetry; unfold l; bdestr).
            rewrite andb_false_r. apply HUi. lia. }
          rewrite E1, !E2 by lia.
          unfold hrefl. rewrite HhL.
          assert (Ed : dot m (uL m W i) (fun r' => x r' k) = sum_from ROps l (m - l) (fun k' => U1 k' i * U1 k' k)).
          { unfold uL. rewrite dot_colpad_shift by lia. rewrite sum_from_rsum.
            replace (m - i)%nat with (S (m - l)) by (unfold l; lia). rewrite rsum_first.
            replace (x (i + 0)%nat k) with 0 by (unfold x; bdestr). rewrite Rmult_0_r, Rplus_0_l.
            apply rsum_ext. intros t Ht. rewrite E1, E2 by (unfold l in *; lia).
            replace (l + t)%nat with (i + S t)%nat by (unfold l; lia). reflexivity. }
          rewrite Ed. unfold uL, colpad. replace ((i <=? r) && (r <? m))%bool with true by (symmetry; bdestr).
          unfold g', Rdiv. ring.
        * replace (i <=? r)%nat with false by (symmetry; bdestr). cbn [andb].
          rewrite HU1. bdestr.
    - destruct Hinv as [E0|E0]; [|fold g in E0; congruence].
      specialize (HI3 E0).
      rewrite (col_loop (m - i) i i (fun _ _ => 0) (fun _ => 0)) by (intros; reflexivity).
      assert (HhL : hL W w i = 0) by (unfold hL; fold g; rewrite E0; apply hinv_of_0).
      rewrite HhL.
      destruct (lt_eq_lt_dec k i) as [[Hk1|Hk1]|Hk1].
      + replace (k <? i)%nat with true by (symmetry; bdestr).
        replace (Nat.eqb k i && ((i <=? r) && (r <? i + (m - i))))%bool with false by (symmetry; bdestr).
        rewrite HU1. unfold l. bdestr.
      + subst k. replace (i <? i)%nat with false by (symmetry; bdestr). rewrite Nat.eqb_refl. cbn [andb].
        rewrite hrefl_hinv0. destruct (le_lt_dec i r) as [Hir|Hir].
        * replace (i <=? r)%nat with true by (symmetry; bdestr).
          replace (r <? i + (m - i))%nat with true by (symmetry; bdestr). cbn [andb]. ring.
        * replace (i <=? r)%nat with false by (symmetry; bdestr). cbn [andb].
          rewrite HU1. unfold l. bdestr.
      + replace (k <? i)%nat with false by (symmetry; bdestr).
        replace (Nat.eqb k i) with false by (symmetry; bdestr). cbn [andb].
        rewrite hrefl_hinv0. rewrite HU1. unfold x, l. bdestr. }
  clearbody U2.
  assert (HU' : forall r k, (r < m)%nat -> (k < n)%nat ->
     freeze ROps m n (upd U2 i i (U2 i i + 1)) r k =
     if (Nat.eqb r i && Nat.eqb k i)%bool then U2 i i + 1 else U2 r k).
  { intros r k Hr Hk. rewrite freeze_in by assumption. rewrite upd_eq. bdestr. }
  split.
  - intros t r Ht Hr. rewrite HU' by lia. replace (Nat.eqb r i && Nat.eqb t i)%bool with false by (symmetry; bdestr).
    rewrite HU2 by lia. replace (t <? i)%nat with true by (symmetry; bdestr). apply Q1; lia.
  - intros r k Hr Hk. destruct (Nat.eq_dec k i) as [->|Hne].
    + rewrite <- evec_colU_tail by assumption. cbn [app_dn].
      apply app_dn_ext; [apply fam_agree_refl| |assumption].
      intros r' Hr'. rewrite HU' by lia.
      destruct (Nat.ltb_spec r' i) as [Hlt|Hge].
      * rewrite hrefl_out by (unfold uL, colpad; bdestr). unfold evec. bdestr.
      * destruct (Nat.eqb_spec r' i) as [->|Hn']; cbn [andb].
        -- rewrite Nat.eqb_refl. rewrite HU2 by lia. replace (i <? i)%nat with false by (symmetry; bdestr).
           rewrite Nat.eqb_refl. replace (i <=? i)%nat with true by (symmetry; bdestr).
           unfold evec at 2. rewrite Nat.eqb_refl. ring.
        -- rewrite HU2 by lia. replace (i <? i)%nat with false by (symmetry; bdestr).
           rewrite Nat.eqb_refl. replace (i <=? r')%nat with true by (symmetry; bdestr).
           unfold evec at 2. replace (Nat.eqb r' i) with false by (symmetry; bdestr). ring.
    + rewrite <- (Q2 r k Hr ltac:(lia)). cbn [app_dn].
      apply app_dn_ext; [apply fam_agree_refl| |assumption].
      intros r' Hr'. fold (x r' k).
      destruct (Nat.ltb_spec r' i) as [Hlt|Hge].
      * rewrite hrefl_out by (unfold uL, colpad; bdestr). unfold x. bdestr.
      * rewrite HU' by lia. replace (Nat.eqb k i) with false by (symmetry; bdestr). rewrite andb_false_r.
        rewrite HU2 by lia. replace (k <? i)%nat with false by (symmetry; bdestr).
        replace (Nat.eqb k i) with false by (symmetry; bdestr).
        replace (i <=? r')%nat with true by (symmetry; bdestr).
        apply hrefl_ext; auto.
Qed.

(* ---------- the first stage of svd_mut as a whole ---------- *)
Definition svd_stage1 (cs : R -> R -> R) (minpos : R) (m n : nat) (A : @Mx R) : @svd_st R * R :=
  let bd := svd_bd cs m n A in
  let '(v, _, _) := for_down n (accum_v_step ROps minpos n (bU bd) (brv1 bd)) (zeros ROps, bg bd, (n + 1)%nat) in
  let U := for_down (Nat.min m n) (accum_u_step ROps minpos m n (bw bd)) (bU bd) in
  (mkSVD U v (bw bd) (brv1 bd), banorm bd).

(* the upper bidiagonal matrix with diagonal w and super-diagonal rv1[1..] *)
Definition Bd (w rv1 : nat -> R) : @Mx R :=
  fun a b => if Nat.eqb b a then w a else if Nat.eqb b (a + 1) then rv1 b else 0.
(* U B V^T *)
Definition UBVt (n : nat) (U : @Mx R) (B : @Mx R) (V : @Mx R) : @Mx R :=
  fun i k => rsum n (fun a => rsum n (fun b => U i a * B a b * V k b)).

(* "no bidiagonal entry is a non-zero subnormal": the accumulation loops treat |g| < minpos as 0 *)
Definition bd_regular (minpos : R) (n : nat) (bd : @bidiag_st R) : Prop :=
  (forall t, (t < n)%nat -> bw bd t = 0 \/ invertible ROps minpos (bw bd t) = true) /\
  (forall t, (t < n)%nat -> brv1 bd t = 0 \/ invertible ROps minpos (brv1 bd t) = true).

(* U has orthonormal columns when it is tall or square, orthonormal rows when it is wide *)
Definition Uorth (m n : nat) (U : @Mx R) : Prop :=
  ((n <= m)%nat -> orthocols m n U) /\
  ((m <= n)%nat -> forall a b, (a < m)%nat -> (b < m)%nat -> rsum n (fun j => U a j * U b j) = if Nat.eqb a b then 1 else 0).

Theorem svd_stage1_correct_gen cs minpos m n (A : @Mx R) : cs_spec cs -> 0 < minpos ->
  bd_regular minpos n (svd_bd cs m n A) ->
  let st := fst (svd_stage1 cs minpos m n A) in
  Uorth m n (sU st) /\ orthocols n n (sV st) /\
  (forall i k, (i < m)%nat -> (k < n)%nat -> UBVt n (sU st) (Bd (sw st) (srv1 st)) (sV st) i k = A i k) /\
  srv1 st 0%nat = 0 /\ orthorows n (sV st).
Proof.
  intros Hcs Hmp [Hregw Hregr]. unfold svd_stage1.
  pose proof (svd_bd_inv cs m n A Hcs) as (I1 & I2 & I3 & I4 & I5 & I6 & _).
  set (bd := svd_bd cs m n A) in *. cbv zeta in I1, I2, I3, I4, I5, I6.
  set (W := bU bd) in *. set (w := bw bd) in *. set (e := epend n bd) in *.
  assert (He : forall t, (t < n)%nat -> e t = brv1 bd t) by (intros t Ht; unfold e, epend; bdestr).
  (* V *)
  assert (HV : Vinv n W e 0 (for_down n (accum_v_step ROps minpos n W (brv1 bd)) (zeros ROps, bg bd, (n + 1)%nat))).
  { apply (for_down_inv (fun c st => Vinv n W e c st)).
    - unfold Vinv. split; [intros; reflexivity|]. split; intros; lia.
    - intros c st Hc HP. apply accum_v_step_inv; try assumption.
      intros t Ht. rewrite He by assumption. apply Hregr. assumption. }
  destruct (for_down n (accum_v_step ROps minpos n W (brv1 bd)) (zeros ROps, bg bd, (n + 1)%nat)) as [[v gg] ll].
  destruct HV as (_ & HV & _). cbn [app_dn] in HV.
  (* U *)
  assert (HU : Uinv m n W w 0 (for_down (Nat.min m n) (accum_u_step ROps minpos m n w) W)).
  { apply (for_down_inv (fun c U => Uinv m n W w c U)).
    - split; [intros; reflexivity|]. intros r k Hr Hk.
      rewrite app_dn_zero by (try assumption; intros i Hi; bdestr).
      rewrite app_dn_zero by (try assumption; intros i Hi; unfold evec; bdestr). reflexivity.
    - intros c U Hc HP. apply accum_u_step_inv; try assumption; try lia.
      + apply Hregw. lia.
      + apply I3. lia.
      + apply I6. lia. }
  set (U := for_down (Nat.min m n) (accum_u_step ROps minpos m n w) W) in *.
  destruct HU as (_ & HU). cbn [app_dn] in HU.
  assert (HU' : forall r k, (r < m)%nat -> (k < n)%nat -> U r k = app_dn m (uL m W) (hL W w) n (evec k) r).
  { intros r k Hr Hk. rewrite <- HU by lia. reflexivity. }
  assert (HV' : forall r k, (r < n)%nat -> (k < n)%nat -> v r k = app_dn n (vR n W) (hR W e) n (evec k) r).
  { intros r k Hr Hk. rewrite <- HV by lia. reflexivity. }
  assert (OkL : forall t, (t < n)%nat -> hrefl_ok m (uL m W t) (hL W w t)) by (intros t Ht; apply I2; assumption).
  assert (OkR : forall t, (t < n)%nat -> hrefl_ok n (vR n W t) (hR W e t)) by (intros t Ht; apply I2; assumption).
  (* row r of U, column j < m, is (H_{n-1} .. H_0 e_r)_j; the columns j >= m of a wide U are zero *)
  assert (HUrow : forall r j, (r < m)%nat -> (j < m)%nat -> (j < n)%nat -> U r j = app_up m (uL m W) (hL W w) n (evec r) j).
  { intros r j Hr Hj Hjn. rewrite HU' by assumption. rewrite <- (dot_evec_r m r _) by assumption.
    rewrite <- app_adjoint by assumption. apply dot_evec_l. assumption. }
  assert (HUzero : forall r j, (r < m)%nat -> (m <= j < n)%nat -> U r j = 0).
  { intros r j Hr Hj. rewrite HU' by lia. apply app_dn_zero; [|assumption]. intros i Hi. unfold evec. bdestr. }
  cbn [fst sU sV sw srv1]. split; [|split; [|split; [|split]]].
  - split.
    + intros Hnm a b Ha Hb.
      rewrite (rsum_ext m _ (fun i => app_dn m (uL m W) (hL W w) n (evec a) i * app_dn m (uL m W) (hL W w) n (evec b) i))
        by (intros i Hi; rewrite !HU' by assumption; reflexivity).
      change (dot m (app_dn m (uL m W) (hL W w) n (evec a)) (app_dn m (uL m W) (hL W w) n (evec b)) = if Nat.eqb a b then 1 else 0).
      rewrite app_dn_dot by assumption. rewrite dot_evec_l by lia. unfold evec. reflexivity.
    + intros Hmn a b Ha Hb.
      rewrite (rsum_trunc n m) by (try assumption; intros j Hj; rewrite (HUzero a j) by lia; ring).
      rewrite (rsum_ext m _ (fun j => app_up m (uL m W) (hL W w) n (evec a) j * app_up m (uL m W) (hL W w) n (evec b) j))
        by (intros j Hj; rewrite !HUrow by lia; reflexivity).
      change (dot m (app_up m (uL m W) (hL W w) n (evec a)) (app_up m (uL m W) (hL W w) n (evec b)) = if Nat.eqb a b then 1 else 0).
      rewrite app_up_dot by assumption. rewrite dot_evec_l by lia. unfold evec. reflexivity.
  - intros a b Ha Hb.
    rewrite (rsum_ext n _ (fun i => app_dn n (vR n W) (hR W e) n (evec a) i * app_dn n (vR n W) (hR W e) n (evec b) i))
      by (intros i Hi; rewrite !HV' by assumption; reflexivity).
    change (dot n (app_dn n (vR n W) (hR W e) n (evec a)) (app_dn n (vR n W) (hR W e) n (evec b)) = if Nat.eqb a b then 1 else 0).
    rewrite app_dn_dot by assumption. rewrite dot_evec_l by lia. unfold evec. reflexivity.
  - intros i k Hi Hk. rewrite <- (bil_evec m n A i k Hi Hk). rewrite I1.
    set (X := app_up m (uL m W) (hL W w) n (evec i)). set (Y := app_up n (vR n W) (hR W e) n (evec k)).
    assert (HX : forall r, (r < m)%nat -> (r < n)%nat -> X r = U i r).
    { intros r Hr Hrn. rewrite HUrow by assumption. reflexivity. }
    assert (HY : forall b, (b < n)%nat -> Y b = v k b).
    { intros b Hb. rewrite HV' by lia. rewrite <- (dot_evec_l n b Y) by lia. unfold Y.
      rewrite app_adjoint by assumption. apply dot_evec_r. assumption. }
    assert (HL : forall r b, (r < m)%nat -> (r < n)%nat -> (b < n)%nat -> Lmat n W w e r b = Bd w (brv1 bd) r b).
    { intros r b Hr Hrn Hb. unfold Lmat, Bd. replace (r <? n)%nat with true by (symmetry; bdestr).
      bdestr. apply He. lia. }
    unfold bil, UBVt. destruct (le_lt_dec n m) as [Hnm|Hmn].
    + rewrite (rsum_trunc m n) by (try assumption; intros r Hr; apply rsum_zero; intros b Hb; unfold Lmat; bdestr; ring).
      apply rsum_ext. intros r Hr. apply rsum_ext. intros b Hb. rewrite HX, HY, HL by lia. reflexivity.
    + rewrite (rsum_trunc n m) by (try lia; intros r Hr; apply rsum_zero; intros b Hb; rewrite (HUzero i r) by lia; ring).
      apply rsum_ext. intros r Hr. apply rsum_ext. intros b Hb. rewrite HX, HY, HL by lia. reflexivity.
  - destruct (Nat.eq_dec n 0) as [Hn0|Hn0].
    + clear -Hn0. unfold bd, svd_bd. subst n. reflexivity.
    + rewrite <- He by lia. exact I5.
  - intros a b Ha Hb.
    assert (Hrow : forall r j, (r < n)%nat -> (j < n)%nat -> v r j = app_up n (vR n W) (hR W e) n (evec r) j).
    { intros r j Hr Hj. rewrite HV' by assumption. rewrite <- (dot_evec_r n r _) by assumption.
      rewrite <- app_adjoint by assumption. apply dot_evec_l. assumption. }
    rewrite (rsum_ext n _ (fun j => app_up n (vR n W) (hR W e) n (evec a) j * app_up n (vR n W) (hR W e) n (evec b) j))
      by (intros j Hj; rewrite !Hrow by assumption; reflexivity).
    change (dot n (app_up n (vR n W) (hR W e) n (evec a)) (app_up n (vR n W) (hR W e) n (evec b)) = if Nat.eqb a b then 1 else 0).
    rewrite app_up_dot by assumption. rewrite dot_evec_l by lia. unfold evec. reflexivity.
Qed.

Theorem svd_stage1_correct cs minpos m n (A : @Mx R) : cs_spec cs -> (n <= m)%nat -> 0 < minpos ->
  bd_regular minpos n (svd_bd cs m n A) ->
  let st := fst (svd_stage1 cs minpos m n A) in
  orthocols m n (sU st) /\ orthocols n n (sV st) /\
  (forall i k, (i < m)%nat -> (k < n)%nat -> UBVt n (sU st) (Bd (sw st) (srv1 st)) (sV st) i k = A i k) /\
  srv1 st 0%nat = 0 /\ orthorows n (sV st).
Proof.
  intros Hcs Hnm Hmp Hreg. destruct (svd_stage1_correct_gen cs minpos m n A Hcs Hmp Hreg) as ((O1 & _) & R).
  split; [exact (O1 Hnm)|exact R].
Qed.
