(* C18 — CategoryMapper: get_one_hot / invert_one_hot round trip and the exact acceptance
   condition of invert_one_hot (src/preprocessing/series_encoder.rs).

   What the Rust does (and the model transliterates): collect the positions whose entry `== 1`;
   if there is exactly one such position `idx`, return `categories[idx]` (an out-of-range `idx`
   panics, `None` in the model); otherwise `Err`.  The length of the vector is NOT compared with
   the number of categories, and entries other than 1 are not inspected. *)
From Coq Require Import List Arith Bool Lia.
From SC Require Import C18.Model C18.Proofs.
Import ListNotations.

Section OneHot.
  Context {V : Type} (vzero vone : V) (is_one : V -> bool).

  (* the (position, value) pairs selected by invert_one_hot's filter_map, positions counted from a *)
  Definition ones_from (a : nat) (v : list V) : list (nat * V) :=
    filter (fun iv => is_one (snd iv)) (zip (seq a (length v)) v).

  Lemma invert_one_hot_unfold cats v :
    invert_one_hot is_one cats v =
    match ones_from 0 v with [(i, _)] => get_cat cats i | _ => None end.
  Proof. reflexivity. Qed.

  Lemma ones_from_cons a x t :
    ones_from a (x :: t) = if is_one x then (a, x) :: ones_from (S a) t else ones_from (S a) t.
  Proof. unfold ones_from. cbn [length seq zip filter snd]. reflexivity. Qed.

  Lemma ones_from_nil : forall v a,
    (forall j, j < length v -> is_one (nth j v vzero) = false) -> ones_from a v = [].
  Proof.
    induction v as [|x t IH]; intros a H; [reflexivity|].
    rewrite ones_from_cons. pose proof (H 0 ltac:(cbn; lia)) as H0. cbn [nth] in H0. rewrite H0.
    apply IH. intros j Hj. apply (H (S j)). cbn; lia.
  Qed.

  Lemma ones_from_In : forall v a i x,
    In (i, x) (ones_from a v) -> a <= i /\ i - a < length v /\ nth (i - a) v vzero = x /\ is_one x = true.
  Proof.
    induction v as [|y t IH]; intros a i x H; [destruct H|].
    rewrite ones_from_cons in H.
    assert (G : In (i, x) (ones_from (S a) t) ->
                a <= i /\ i - a < length (y :: t) /\ nth (i - a) (y :: t) vzero = x /\ is_one x = true).
    { intro H'. destruct (IH _ _ _ H') as [H1 [H2 [H3 H4]]].
      replace (i - a) with (S (i - S a)) by lia. cbn [length nth]. repeat split; try lia; assumption. }
    destruct (is_one y) eqn:E; [|exact (G H)].
    destruct H as [H|H]; [|exact (G H)].
    inversion H; subst. rewrite Nat.sub_diag. cbn. repeat split; try lia; assumption.
  Qed.

  Lemma ones_from_complete : forall v a j,
    j < length v -> is_one (nth j v vzero) = true -> In (a + j, nth j v vzero) (ones_from a v).
  Proof.
    induction v as [|y t IH]; intros a j Hj H; [cbn in Hj; lia|].
    rewrite ones_from_cons. destruct j as [|j].
    - cbn [nth] in *. rewrite H. rewrite Nat.add_0_r. left; reflexivity.
    - cbn [nth length] in *. specialize (IH (S a) j ltac:(lia) H).
      replace (a + S j) with (S a + j) by lia.
      destruct (is_one y); [right|]; exact IH.
  Qed.

  (* exactly one position holds a `one`  ==>  the filter returns exactly that position *)
  Lemma ones_from_single : forall v a i,
    i < length v -> is_one (nth i v vzero) = true ->
    (forall j, j < length v -> is_one (nth j v vzero) = true -> j = i) ->
    ones_from a v = [(a + i, nth i v vzero)].
  Proof.
    induction v as [|y t IH]; intros a i Hi H1 Hu; [cbn in Hi; lia|].
    rewrite ones_from_cons. destruct i as [|i].
    - cbn [nth] in *. rewrite H1. rewrite Nat.add_0_r. f_equal.
      apply ones_from_nil. intros j Hj. destruct (is_one (nth j t vzero)) eqn:E; [|reflexivity].
      specialize (Hu (S j)). cbn [length nth] in Hu. specialize (Hu ltac:(lia) E). discriminate.
    - cbn [nth length] in *.
      assert (Ey : is_one y = false).
      { destruct (is_one y) eqn:E; [|reflexivity]. specialize (Hu 0 ltac:(lia) E). discriminate. }
      rewrite Ey. replace (a + S i) with (S a + i) by lia. apply IH; [lia|assumption|].
      intros j Hj E. specialize (Hu (S j) ltac:(lia) E). lia.
  Qed.

  (* the number of entries equal to one, as the Rust counts them (`s.len()`) *)
  Definition count_ones (v : list V) : nat := length (ones_from 0 v).

  Lemma count_ones_filter : forall v, count_ones v = length (filter is_one v).
  Proof.
    unfold count_ones. generalize 0. intros a v. revert a.
    induction v as [|x t IH]; intro a; [reflexivity|].
    rewrite ones_from_cons. cbn [filter]. destruct (is_one x); cbn [length]; rewrite IH; reflexivity.
  Qed.

  (* exact acceptance condition *)
  Theorem invert_one_hot_spec : forall cats v c,
    invert_one_hot is_one cats v = Some c <->
    exists i, i < length v /\ is_one (nth i v vzero) = true /\
              (forall j, j < length v -> is_one (nth j v vzero) = true -> j = i) /\
              nth_error cats i = Some c.
  Proof.
    intros cats v c. rewrite invert_one_hot_unfold. split.
    - destruct (ones_from 0 v) as [|[i x] [|w l]] eqn:E; try discriminate.
      intro Hc. exists i.
      assert (Hin : In (i, x) (ones_from 0 v)) by (rewrite E; left; reflexivity).
      destruct (ones_from_In _ _ _ _ Hin) as [_ [H2 [H3 H4]]]. rewrite Nat.sub_0_r in *.
      split; [assumption|]. split; [rewrite H3; assumption|]. split; [|exact Hc].
      intros j Hj Hone. pose proof (ones_from_complete v 0 j Hj Hone) as Hj'.
      rewrite E in Hj'. destruct Hj' as [Hj'|[]]. inversion Hj'. reflexivity.
    - intros [i [Hi [H1 [Hu Hc]]]]. rewrite (ones_from_single v 0 i Hi H1 Hu). exact Hc.
  Qed.

  (* rejections *)
  Lemma invert_one_hot_no_one : forall cats v,
    (forall j, j < length v -> is_one (nth j v vzero) = false) -> invert_one_hot is_one cats v = None.
  Proof. intros cats v H. rewrite invert_one_hot_unfold, ones_from_nil by assumption. reflexivity. Qed.

  Lemma invert_one_hot_two_ones : forall cats v i j,
    i < length v -> j < length v -> i <> j ->
    is_one (nth i v vzero) = true -> is_one (nth j v vzero) = true ->
    invert_one_hot is_one cats v = None.
  Proof.
    intros cats v i j Hi Hj Hne H1 H2.
    destruct (invert_one_hot is_one cats v) as [c|] eqn:E; [|reflexivity]. exfalso.
    apply invert_one_hot_spec in E. destruct E as [k [_ [_ [Hu _]]]].
    pose proof (Hu i Hi H1). pose proof (Hu j Hj H2). lia.
  Qed.

  Lemma invert_one_hot_out_of_range : forall cats v i,
    i < length v -> is_one (nth i v vzero) = true -> length cats <= i ->
    invert_one_hot is_one cats v = None.
  Proof.
    intros cats v i Hi H1 Hge.
    destruct (invert_one_hot is_one cats v) as [c|] eqn:E; [|reflexivity]. exfalso.
    apply invert_one_hot_spec in E. destruct E as [k [_ [_ [Hu Hc]]]].
    pose proof (Hu i Hi H1). subst k.
    assert (i < length cats) by (apply nth_error_Some; congruence). lia.
  Qed.

  Lemma invert_one_hot_count : forall cats v, count_ones v <> 1 -> invert_one_hot is_one cats v = None.
  Proof.
    intros cats v H. rewrite invert_one_hot_unfold. unfold count_ones in H.
    destruct (ones_from 0 v) as [|[i x] [|w l]]; try reflexivity. cbn in H. lia.
  Qed.

  (* ---- make_one_hot ---- *)
  Lemma make_one_hot_length i k : length (make_one_hot vzero vone i k) = k.
  Proof. unfold make_one_hot. rewrite map_length, seq_length. reflexivity. Qed.

  Lemma make_one_hot_nth i k j : j < k ->
    nth j (make_one_hot vzero vone i k) vzero = if Nat.eqb j i then vone else vzero.
  Proof.
    intro H. unfold make_one_hot. rewrite (nth_map_lt _ _ _ _ 0) by (rewrite seq_length; assumption).
    rewrite seq_nth by assumption. reflexivity.
  Qed.

  Hypothesis Hone : is_one vone = true.
  Hypothesis Hzero : is_one vzero = false.

  Lemma invert_make_one_hot : forall cats i k, i < k ->
    invert_one_hot is_one cats (make_one_hot vzero vone i k) = get_cat cats i.
  Proof.
    intros cats i k Hi. rewrite invert_one_hot_unfold.
    rewrite (ones_from_single _ 0 i).
    - reflexivity.
    - rewrite make_one_hot_length. assumption.
    - rewrite make_one_hot_nth by assumption. rewrite Nat.eqb_refl. assumption.
    - intros j Hj. rewrite make_one_hot_length in Hj. rewrite make_one_hot_nth by assumption.
      destruct (Nat.eqb_spec j i); [auto|]. rewrite Hzero. discriminate.
  Qed.

  (* invert_one_hot (get_one_hot c) = c : holds for every category list, duplicate-free or not,
     because get_num returns the first position of c *)
  Theorem one_hot_round_trip : forall cats c oh,
    get_one_hot vzero vone cats c = Some oh ->
    length oh = length cats /\ invert_one_hot is_one cats oh = Some c.
  Proof.
    intros cats c oh H. unfold get_one_hot in H.
    destruct (get_num cats c) as [i|] eqn:E; [|discriminate]. cbn in H. inversion H; subst oh.
    split; [apply make_one_hot_length|].
    destruct (get_num_lt _ _ _ E) as [Hi Hc].
    rewrite invert_make_one_hot by assumption. exact Hc.
  Qed.

  Lemma get_one_hot_some : forall cats c, In c cats -> exists oh, get_one_hot vzero vone cats c = Some oh.
  Proof.
    intros cats c H. destruct (get_num_in _ _ H) as [i E]. unfold get_one_hot. rewrite E.
    eexists; reflexivity.
  Qed.

  Lemma get_one_hot_none : forall cats c, get_one_hot vzero vone cats c = None <-> ~ In c cats.
  Proof.
    intros cats c. rewrite <- get_num_none. unfold get_one_hot.
    destruct (get_num cats c); cbn; split; congruence.
  Qed.

  (* the other composition: a genuine one-hot vector (right length, entries vone / vzero only) that
     invert_one_hot accepts is reproduced by get_one_hot of the returned category *)
  Theorem one_hot_round_trip_inv : forall cats v c, NoDup cats ->
    length v = length cats ->
    (forall j, j < length v -> nth j v vzero = if is_one (nth j v vzero) then vone else vzero) ->
    invert_one_hot is_one cats v = Some c ->
    get_one_hot vzero vone cats c = Some v.
  Proof.
    intros cats v c Hnd Hlen Hshape H. apply invert_one_hot_spec in H.
    destruct H as [i [Hi [H1 [Hu Hc]]]].
    unfold get_one_hot. rewrite (get_num_get_cat cats c i Hnd Hc). cbn [option_map]. f_equal.
    apply (nth_ext _ _ vzero vzero); [rewrite make_one_hot_length; symmetry; assumption|].
    intros j Hj. rewrite make_one_hot_length in Hj. rewrite make_one_hot_nth by assumption.
    rewrite Hshape by lia. destruct (Nat.eqb_spec j i) as [->|Hne]; [rewrite H1; reflexivity|].
    destruct (is_one (nth j v vzero)) eqn:E; [|reflexivity].
    exfalso. apply Hne. apply Hu; [lia|assumption].
  Qed.

  (* all laws for a fitted mapper *)
  Theorem fitted_one_hot_laws : forall series,
    let cats := fit_to_iter series in
    (forall c, In c series ->
       exists oh, get_one_hot vzero vone cats c = Some oh /\ length oh = length cats /\
                  invert_one_hot is_one cats oh = Some c) /\
    (forall c, ~ In c series -> get_one_hot vzero vone cats c = None) /\
    (forall v c, length v = length cats ->
       (forall j, j < length v -> nth j v vzero = if is_one (nth j v vzero) then vone else vzero) ->
       invert_one_hot is_one cats v = Some c -> get_one_hot vzero vone cats c = Some v) /\
    (forall v c, invert_one_hot is_one cats v = Some c <->
       exists i, i < length v /\ is_one (nth i v vzero) = true /\
                 (forall j, j < length v -> is_one (nth j v vzero) = true -> j = i) /\
                 nth_error cats i = Some c) /\
    (forall v, (forall j, j < length v -> is_one (nth j v vzero) = false) ->
       invert_one_hot is_one cats v = None) /\
    (forall v i j, i < length v -> j < length v -> i <> j ->
       is_one (nth i v vzero) = true -> is_one (nth j v vzero) = true ->
       invert_one_hot is_one cats v = None) /\
    (forall v i, i < length v -> is_one (nth i v vzero) = true -> length cats <= i ->
       invert_one_hot is_one cats v = None).
  Proof.
    intros series cats. repeat split.
    - intros c Hc. assert (Hin : In c cats) by (apply fit_to_iter_In; assumption).
      destruct (get_one_hot_some cats c Hin) as [oh E]. exists oh. split; [assumption|].
      apply one_hot_round_trip. assumption.
    - intros c Hc. apply get_one_hot_none. unfold cats. rewrite fit_to_iter_In. assumption.
    - intros v c. apply one_hot_round_trip_inv. apply fit_to_iter_NoDup.
    - apply invert_one_hot_spec.
    - apply invert_one_hot_spec.
    - apply invert_one_hot_no_one.
    - apply invert_one_hot_two_ones.
    - apply invert_one_hot_out_of_range.
  Qed.
End OneHot.

(* The Rust does not compare the vector's length with the number of categories: a too short or too
   long vector with a single 1 inside the category range is accepted.  (Witness over nat values,
   one = 1.)  So "rejects every vector of the wrong length" is false for the code as written. *)
Lemma invert_one_hot_length_not_checked :
  invert_one_hot (Nat.eqb 1) (fit_to_iter [5; 6; 7]) [1] = Some 5 /\
  invert_one_hot (Nat.eqb 1) (fit_to_iter [5; 6; 7]) [0; 1; 0; 0; 0] = Some 6 /\
  invert_one_hot (Nat.eqb 1) (fit_to_iter [5; 6; 7]) [2; 1; 3] = Some 6.
Proof. repeat split. Qed.

(* the hypotheses `is_one vone = true`, `is_one vzero = false` hold at the instance the
   correspondence runs (binary64, one = 1.0, zero = 0.0, is_one = `== 1.0`) *)
From Coq Require PrimFloat.
From SC Require C18.Corr.
Lemma float_is_one_instance :
  SC.C18.Corr.f_is_one PrimFloat.one = true /\ SC.C18.Corr.f_is_one PrimFloat.zero = false.
Proof. split; vm_compute; reflexivity. Qed.
