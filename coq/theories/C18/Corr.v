(* C18 — correspondence interface: the model instantiated at binary64 values, with `N`
   arguments, compared against what the implementation returned.  Used by the harness
   (harness/src/bin/c18.rs) through `Eval vm_compute`. *)
From Coq Require Import List ZArith Bool Floats.
From SC Require Import Base.FloatUtil C18.Model.
Import ListNotations.

Definition to_nats := map N.to_nat.
Definition of_nats := map N.of_nat.

Definition corr_new_idxs (p : N) (sizes idxs expected : list N) : bool :=
  nlist_eqb (of_nats (find_new_idxs (N.to_nat p) (to_nats sizes) (to_nats idxs))) expected.

(* ERROR_MARGIN = 0.001 (f64) resp. 0.001f32 widened; passed in by the harness *)
Definition fvalid (margin x : float) : bool :=
  PrimFloat.ltb (fabs (PrimFloat.sub (float_of_nat (float_as_u16 x)) x)) margin.
Definition f_is_one (x : float) : bool := PrimFloat.eqb x 1%float.

Definition fit_f (margin : float) := @fit float 0%float float_as_u16 (fvalid margin).
Definition transform_f := @transform float 0%float 1%float float_as_u16.

Definition run_fit_transform (margin : float) (x : list (list float)) (p : N) (idxs : list N)
  : option (list (list float)) :=
  match fit_f margin x (to_nats idxs) with
  | None => None
  | Some enc => transform_f enc (N.to_nat p) x
  end.

(* fit on x, transform x2 (unseen categories -> None) *)
Definition run_fit_transform2 (margin : float) (x x2 : list (list float)) (p : N) (idxs : list N)
  : option (option (list (list float))) :=
  match fit_f margin x (to_nats idxs) with
  | None => None
  | Some enc => Some (transform_f enc (N.to_nat p) x2)
  end.

Definition corr_fit_transform margin x p idxs (expected : option (list (list float))) : bool :=
  option_eqb fmat_eq (run_fit_transform margin x p idxs) expected.
Definition corr_fit_transform2 margin x x2 p idxs (expected : option (option (list (list float)))) : bool :=
  option_eqb (option_eqb fmat_eq) (run_fit_transform2 margin x x2 p idxs) expected.

(* CategoryMapper: categories in first-appearance order, get_num of queries,
   one-hot vectors of queries, inverse of those one-hot vectors *)
Definition corr_mapper (series queries : list N) (exp_cats : list N) (exp_nums : list (option N))
           (exp_oh : list (option (list float))) (exp_inv : list (option N)) : bool :=
  let cats := fit_to_iter (to_nats series) in
  nlist_eqb (of_nats cats) exp_cats &&
  list_eqb (option_eqb N.eqb) (map (fun q => option_map N.of_nat (get_num cats (N.to_nat q))) queries) exp_nums &&
  list_eqb (option_eqb flist_eq) (map (fun q => get_one_hot 0%float 1%float cats (N.to_nat q)) queries) exp_oh &&
  list_eqb (option_eqb N.eqb)
     (map (fun q => match get_one_hot 0%float 1%float cats (N.to_nat q) with
                    | None => None
                    | Some oh => option_map N.of_nat (invert_one_hot f_is_one cats oh)
                    end) queries) exp_inv.
