(* C18 — shape of the encoded matrix, and the layout clause cell by cell (`mget`). *)
From Coq Require Import List Arith Bool Lia Permutation.
From SC Require Import C18.Model C18.Proofs C18.Layout C18.ProofsWrites.
Import ListNotations.

Lemma sorted_lt_length : forall l lo p,
  sorted_lt lo l -> (forall c, In c l -> c < p) -> length l <= p - lo.
Proof.
  induction l as [|v l IH]; intros lo p Hs Hlt; cbn [length]; [lia|].
  destruct Hs as [Hv Hs].
  assert (v < p) by (apply Hlt; left; reflexivity).
  specialize (IH (S v) p Hs ltac:(intros c Hc; apply Hlt; right; assumption)). lia.
Qed.

Lemma sum_widths : forall sizes, Forall (fun k => 1 <= k) sizes ->
  fold_right (fun v s => (v - 1) + s) 0 sizes + length sizes = list_sum sizes.
Proof.
  induction sizes as [|k sizes IH]; intro H; [reflexivity|]. inversion H; subst.
  change (list_sum (k :: sizes)) with (k + list_sum sizes).
  cbn [fold_right length]. specialize (IH ltac:(assumption)). lia.
Qed.

(* the width computed by transform (`p + fold(cs + v - 1)`) is p - #categorical + sum of the
   category counts, for a well-formed encoder *)
Lemma expanded_width_formula : forall enc p, enc_wf enc p ->
  expanded_width p (map (@length nat) (mappers enc)) =
  p - length (cat_cols enc) + list_sum (map (@length nat) (mappers enc)).
Proof.
  intros enc p [Hlen [Hs [Hlt Hne]]]. unfold expanded_width.
  rewrite fold_widths by (apply Hk; assumption).
  pose proof (sum_widths _ (Hk enc Hne)) as Hsum. rewrite map_length in Hsum.
  pose proof (sorted_lt_length _ _ _ Hs Hlt). lia.
Qed.

Lemma Forall2_Forall_r {A B} (R : A -> B -> Prop) (P : B -> Prop) : forall l l',
  Forall2 R l l' -> (forall a b, R a b -> P b) -> Forall P l'.
Proof. induction 1; intro HP; constructor; eauto. Qed.

Lemma Forall2_nth {A B} (R : A -> B -> Prop) (da : A) (db : B) : forall l l',
  Forall2 R l l' -> forall i, i < length l -> R (nth i l da) (nth i l' db).
Proof.
  induction 1 as [|a b l l' Hab _ IH]; intros i Hi; cbn [length] in Hi; [lia|].
  destruct i; cbn [nth]; [assumption|]. apply IH. lia.
Qed.

Section Shape.
  Context {V : Type} (vzero vone : V) (to_cat : V -> nat).

  (* every accepted row gets the width transform computed — no hypothesis on the encoder *)
  Lemma transform_row_length : forall enc p xr row,
    transform_row vzero vone to_cat enc p xr = Some row ->
    length row = expanded_width p (map (@length nat) (mappers enc)).
  Proof.
    intros enc p xr row H. rewrite transform_row_is_writes in H.
    destruct (row_writes vzero vone to_cat enc p xr) as [ws|]; [|discriminate].
    cbn [option_map] in H. inversion H. rewrite apply_writes_length. unfold zero_row. apply repeat_length.
  Qed.

  Theorem transform_shape_raw : forall enc p x r,
    transform vzero vone to_cat enc p x = Some r ->
    length r = length x /\
    Forall (fun row => length row = expanded_width p (map (@length nat) (mappers enc))) r.
  Proof.
    intros enc p x r H. unfold transform in H. apply all_some_Forall2_eq in H. split.
    - symmetry. eapply Forall2_len; eassumption.
    - eapply Forall2_Forall_r; [exact H|]. cbn beta. intros xr row. apply transform_row_length.
  Qed.

  (* output shape = (rows, p - |cat_idx| + sum of category counts) for every input accepted *)
  Theorem transform_shape : forall enc p x r,
    enc_wf enc p -> transform vzero vone to_cat enc p x = Some r ->
    length r = length x /\
    Forall (fun row => length row =
              p - length (cat_cols enc) + list_sum (map (@length nat) (mappers enc))) r.
  Proof.
    intros enc p x r Hwf H. rewrite <- (expanded_width_formula enc p Hwf).
    eapply transform_shape_raw; eassumption.
  Qed.
End Shape.

Theorem fit_transform_shape {V : Type} (vzero vone : V) (to_cat : V -> nat) (valid : V -> bool) :
  forall (x : list (list V)) (idxs : list nat) (p : nat) enc (x2 r : list (list V)),
  x <> [] -> NoDup idxs -> (forall c, In c idxs -> c < p) ->
  fit vzero to_cat valid x idxs = Some enc ->
  transform vzero vone to_cat enc p x2 = Some r ->
  length (cat_cols enc) = length idxs /\
  map (@length nat) (mappers enc) =
    map (fun c => length (fit_to_iter (map to_cat (column vzero x c)))) (sort_nat idxs) /\
  length r = length x2 /\
  Forall (fun row => length row =
            p - length idxs + list_sum (map (@length nat) (mappers enc))) r.
Proof.
  intros x idxs p enc x2 r Hx Hnd Hlt Hfit Ht.
  pose proof (fit_wf vzero to_cat valid x idxs p enc Hx Hnd Hlt Hfit) as Hwf.
  destruct (onehot_layout vzero vone to_cat valid x idxs p enc Hx Hnd Hlt Hfit) as [Hc [Hm _]].
  assert (Hl : length (cat_cols enc) = length idxs).
  { rewrite Hc. apply Permutation_length. apply sort_nat_perm. }
  split; [exact Hl|]. split; [rewrite Hm, map_map; reflexivity|].
  rewrite <- Hl. apply (transform_shape vzero vone to_cat enc p x2 r Hwf Ht).
Qed.

(* the layout clause cell by cell: r[i][ni j] = x[i][j] for plain j, and the indicator block of a
   categorical column c at r[i][ni c .. ni c + k_c) *)
Theorem onehot_cells {V : Type} (vzero vone : V) (to_cat : V -> nat) (valid : V -> bool) :
  forall (x : list (list V)) (idxs : list nat) (p : nat) enc,
  x <> [] -> NoDup idxs -> (forall c, In c idxs -> c < p) ->
  fit vzero to_cat valid x idxs = Some enc ->
  let cats := zip (cat_cols enc) (map (@length nat) (mappers enc)) in
  exists r, transform vzero vone to_cat enc p x = Some r /\ length r = length x /\
    forall i, i < length x ->
      (forall j, j < p -> ~ In j (cat_cols enc) -> mget vzero r i (ni cats j) = mget vzero x i j) /\
      (forall pidx c k t, nth_error (cat_cols enc) pidx = Some c ->
         get_num (nth pidx (mappers enc) []) (to_cat (mget vzero x i c)) = Some k ->
         t < length (nth pidx (mappers enc) []) ->
         mget vzero r i (ni cats c + t) = if Nat.eqb t k then vone else vzero).
Proof.
  intros x idxs p enc Hx Hnd Hlt Hfit cats.
  destruct (onehot_layout vzero vone to_cat valid x idxs p enc Hx Hnd Hlt Hfit) as [_ [_ [r [Hr HF]]]].
  exists r. split; [exact Hr|].
  split; [symmetry; eapply Forall2_len; eassumption|].
  intros i Hi. pose proof (Forall2_nth _ [] [] _ _ HF i Hi) as [_ [H2 H3]].
  unfold mget. split; [exact H2|exact H3].
Qed.
