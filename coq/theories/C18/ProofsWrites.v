(* C18 — `OneHotEncoder::transform` as a list of block writes.

   Layout.v introduced `apply_writes`, `cat_write`, `plain_writes`, `in_range`, `ni`, `width` as
   proof devices for the layout theorem.  Here they become a second, "list of writes" semantics of
   the model's transform, with its own theorem:

     transform_row enc p xr = apply_writes (zero row of the expanded width) ws,
     ws = [one block write per categorical column] ++ [one singleton write per plain column],

   and, for a well-formed encoder (what `fit` returns), the writes are in one-to-one correspondence
   with the input columns 0..p-1 (a permutation of them), the write of column j starts at ni j and is
   width j long, and the ranges TILE the output row: every output cell q < W is in the range of
   exactly one write and no write reaches beyond W.  Consequently no write is overwritten by a later
   one.  This is the disjointness / coverage form of the layout clause. *)
From Coq Require Import List Arith Bool Lia Permutation.
From SC Require Import C18.Model C18.Proofs C18.Layout.
Import ListNotations.

(* what `fit` guarantees about the encoder it returns (for an input with p columns) *)
Definition enc_wf (enc : encoder) (p : nat) : Prop :=
  length (mappers enc) = length (cat_cols enc) /\
  sorted_lt 0 (cat_cols enc) /\
  (forall c, In c (cat_cols enc) -> c < p) /\
  Forall (fun m : list nat => 1 <= length m) (mappers enc).

(* ---------- generic list lemmas ---------- *)
Lemma all_some_Forall2_eq {A B} (f : A -> option B) : forall l ys,
  all_some (map f l) = Some ys -> Forall2 (fun x y => f x = Some y) l ys.
Proof.
  induction l as [|a l IH]; intros ys H; cbn [map all_some] in H.
  - inversion H. constructor.
  - destruct (f a) as [b|] eqn:E; [|discriminate].
    destruct (all_some (map f l)) as [ys'|]; [|discriminate]. cbn in H. inversion H; subst.
    constructor; [assumption|]. apply IH. reflexivity.
Qed.

Lemma all_some_Forall2_map {A B C} (f : A -> option B) (g : A -> C) (R : B -> C -> Prop) : forall l ys,
  (forall x y, In x l -> f x = Some y -> R y (g x)) ->
  all_some (map f l) = Some ys -> Forall2 R ys (map g l).
Proof.
  induction l as [|a l IH]; intros ys HR H; cbn [map all_some] in H.
  - inversion H. constructor.
  - destruct (f a) as [b|] eqn:E; [|discriminate].
    destruct (all_some (map f l)) as [ys'|]; [|discriminate]. cbn in H. inversion H; subst.
    cbn [map]. constructor; [apply HR; [left; reflexivity|assumption]|].
    apply IH; [|reflexivity]. intros x y Hx. apply HR. right; assumption.
Qed.

Lemma Forall2_map_self {A B} (f : A -> B) (R : B -> A -> Prop) : forall l,
  (forall a, In a l -> R (f a) a) -> Forall2 R (map f l) l.
Proof.
  induction l as [|a l IH]; intro H; cbn [map]; constructor.
  - apply H. left; reflexivity.
  - apply IH. intros b Hb. apply H. right; assumption.
Qed.

Lemma Forall2_Forall_l {A B} (R : A -> B -> Prop) (P : A -> Prop) : forall l l',
  Forall2 R l l' -> (forall a b, In b l' -> R a b -> P a) -> Forall P l.
Proof.
  induction 1 as [|a b l l' Hab _ IH]; intro H; constructor.
  - apply (H a b); [left; reflexivity|assumption].
  - apply IH. intros a' b' Hb'. apply H. right; assumption.
Qed.

Lemma Forall2_len {A B} (R : A -> B -> Prop) : forall l l', Forall2 R l l' -> length l = length l'.
Proof. induction 1; cbn; congruence. Qed.

Lemma Forall2_imp {A B} (R R' : A -> B -> Prop) : (forall a b, R a b -> R' a b) ->
  forall l l', Forall2 R l l' -> Forall2 R' l l'.
Proof. intros H l l'. induction 1; constructor; auto. Qed.

Lemma filter_map_comm {A B} (f : B -> bool) (g : A -> B) : forall l,
  filter f (map g l) = map g (filter (fun x => f (g x)) l).
Proof.
  induction l as [|a l IH]; [reflexivity|]. cbn [map filter]. rewrite IH.
  destruct (f (g a)); reflexivity.
Qed.

Lemma map_snd_zip_seq {A} : forall (l : list A) a, map snd (zip (seq a (length l)) l) = l.
Proof. induction l as [|x l IH]; intro a; [reflexivity|]. cbn [length seq zip map snd]. rewrite IH. reflexivity. Qed.

Lemma zip_seq_as_map : forall (l : list nat) a,
  zip (seq a (length l)) l = map (fun j => (j, nth (j - a) l 0)) (seq a (length l)).
Proof.
  induction l as [|x l IH]; intro a; [reflexivity|].
  cbn [length seq zip map]. rewrite Nat.sub_diag. cbn [nth]. f_equal.
  rewrite IH. apply map_ext_in. intros j Hj. apply in_seq in Hj.
  replace (j - a) with (S (j - S a)) by lia. reflexivity.
Qed.

Lemma Permutation_filter_length {A} (f : A -> bool) : forall l l',
  Permutation l l' -> length (filter f l) = length (filter f l').
Proof.
  induction 1 as [|a l l' _ IH|a b l|l l' l'' _ IH1 _ IH2]; cbn [filter].
  - reflexivity.
  - destruct (f a); cbn [length]; rewrite IH; reflexivity.
  - destruct (f a), (f b); reflexivity.
  - rewrite IH1. exact IH2.
Qed.

Lemma NoDup_app_intro {A} : forall (l1 l2 : list A),
  NoDup l1 -> NoDup l2 -> (forall x, In x l1 -> ~ In x l2) -> NoDup (l1 ++ l2).
Proof.
  induction l1 as [|a l1 IH]; intros l2 H1 H2 Hd; [assumption|].
  inversion H1 as [|? ? Ha H1']; subst. cbn [app]. constructor.
  - rewrite in_app_iff. intros [H|H]; [contradiction|]. apply (Hd a); [left; reflexivity|assumption].
  - apply IH; [assumption|assumption|]. intros x Hx. apply Hd. right; assumption.
Qed.

Lemma filter_singleton_eq {A} (f : A -> bool) : forall l a b,
  length (filter f l) = 1 -> In a l -> f a = true -> In b l -> f b = true -> a = b.
Proof.
  intros l a b Hl Ha Hfa Hb Hfb.
  assert (Ha' : In a (filter f l)) by (apply filter_In; split; assumption).
  assert (Hb' : In b (filter f l)) by (apply filter_In; split; assumption).
  destruct (filter f l) as [|c [|d t]]; cbn in Hl; try lia.
  destruct Ha' as [<-|[]]. destruct Hb' as [<-|[]]. reflexivity.
Qed.

(* ---------- strictly increasing lists ---------- *)
Lemma sorted_lt_ge : forall l lo x, sorted_lt lo l -> In x l -> lo <= x.
Proof.
  induction l as [|v l IH]; intros lo x Hs Hin; [destruct Hin|]. destruct Hs as [Hv Hs].
  destruct Hin as [<-|Hin]; [assumption|]. specialize (IH _ _ Hs Hin). lia.
Qed.

Lemma sorted_lt_NoDup : forall l lo, sorted_lt lo l -> NoDup l.
Proof.
  induction l as [|v l IH]; intros lo Hs; [constructor|]. destruct Hs as [_ Hs]. constructor.
  - intro Hin. pose proof (sorted_lt_ge _ _ _ Hs Hin). lia.
  - eapply IH; eassumption.
Qed.

(* the order in which transform touches the input columns: categorical ones first (ascending),
   then the plain ones (ascending) *)
Definition write_order (idxs : list nat) (p : nat) : list nat :=
  idxs ++ filter (fun j => negb (mem_nat j idxs)) (seq 0 p).

Lemma write_order_perm : forall idxs p lo,
  sorted_lt lo idxs -> (forall c, In c idxs -> c < p) -> Permutation (write_order idxs p) (seq 0 p).
Proof.
  intros idxs p lo Hs Hlt. unfold write_order. apply NoDup_Permutation.
  - apply NoDup_app_intro.
    + eapply sorted_lt_NoDup; eassumption.
    + apply NoDup_filter. apply seq_NoDup.
    + intros x Hx Hf. apply filter_In in Hf. destruct Hf as [_ Hf].
      apply (proj2 (mem_nat_In x idxs)) in Hx. rewrite Hx in Hf. discriminate.
  - apply seq_NoDup.
  - intro x. rewrite in_app_iff, filter_In, in_seq. split.
    + intros [H|[H _]]; [specialize (Hlt _ H); lia|lia].
    + intro H. destruct (mem_nat x idxs) eqn:E.
      * left. apply mem_nat_In. assumption.
      * right. split; [lia|reflexivity].
Qed.

(* ---------- tiling of [0, ni p) by the column ranges ---------- *)
Definition col_range (cats : list (nat * nat)) (q j : nat) : bool :=
  (ni cats j <=? q) && (q <? ni cats j + width cats j).

Lemma extra_before_0 : forall cats, extra_before 0 cats = 0.
Proof. induction cats as [|[c k] t IH]; [reflexivity|]. cbn [extra_before]. rewrite IH. reflexivity. Qed.

Lemma ni_0 cats : ni cats 0 = 0.
Proof. unfold ni. rewrite extra_before_0. reflexivity. Qed.

Lemma count_cols_seq cats : forall p q,
  length (filter (col_range cats q) (seq 0 p)) = if q <? ni cats p then 1 else 0.
Proof.
  induction p as [|p IH]; intro q.
  - rewrite ni_0. reflexivity.
  - rewrite seq_S, filter_app, app_length, IH. cbn [Nat.add filter]. unfold col_range.
    rewrite (ni_step cats p). unfold width.
    destruct (Nat.ltb_spec q (ni cats p)), (Nat.leb_spec (ni cats p) q),
             (Nat.ltb_spec q (ni cats p + S (extra_before (S p) cats - extra_before p cats)));
      cbn [andb length]; lia.
Qed.

Section Writes.
  Context {V : Type} (vzero vone : V) (to_cat : V -> nat).

  (* the writes transform performs for one input row, in the order it performs them *)
  Definition row_writes (enc : encoder) (p : nat) (xr : list V) : option (list (nat * list V)) :=
    let sizes := map (@length nat) (mappers enc) in
    let new_idx := find_new_idxs p sizes (cat_cols enc) in
    option_map (fun cws => cws ++ plain_writes vzero (cat_cols enc) (zip (seq 0 p) new_idx) xr)
               (all_some (map (cat_write vzero vone to_cat enc new_idx xr)
                              (zip (seq 0 (length (cat_cols enc))) (cat_cols enc)))).

  Definition zero_row (enc : encoder) (p : nat) : list V :=
    repeat vzero (expanded_width p (map (@length nat) (mappers enc))).

  (* transform_row IS "apply the writes to the zero row" — no hypothesis on the encoder *)
  Theorem transform_row_is_writes : forall enc p xr,
    transform_row vzero vone to_cat enc p xr =
    option_map (apply_writes (zero_row enc p)) (row_writes enc p xr).
  Proof.
    intros enc p xr. unfold transform_row, write_cats, row_writes, zero_row.
    rewrite (write_cats_fold vzero vone to_cat).
    destruct (all_some _) as [cws|]; cbn [option_map]; [|reflexivity].
    rewrite write_plain_writes, apply_writes_app. reflexivity.
  Qed.

  Theorem transform_is_writes : forall enc p x,
    transform vzero vone to_cat enc p x =
    all_some (map (fun xr => option_map (apply_writes (zero_row enc p)) (row_writes enc p xr)) x).
  Proof.
    intros enc p x. unfold transform. f_equal. apply map_ext. intro xr. apply transform_row_is_writes.
  Qed.

  (* the block written for input column j of row xr *)
  Definition col_block (enc : encoder) (xr : list V) (j : nat) (blk : list V) : Prop :=
    (exists pidx i, nth_error (cat_cols enc) pidx = Some j /\
        get_num (nth pidx (mappers enc) []) (to_cat (nth j xr vzero)) = Some i /\
        blk = make_one_hot vzero vone i (length (nth pidx (mappers enc) [])))
    \/ (~ In j (cat_cols enc) /\ blk = [nth j xr vzero]).

  Definition write_of_col (enc : encoder) (xr : list V) (w : nat * list V) (j : nat) : Prop :=
    let cats := zip (cat_cols enc) (map (@length nat) (mappers enc)) in
    fst w = ni cats j /\ length (snd w) = width cats j /\ col_block enc xr j (snd w).

  Definition writes_tile (enc : encoder) (p : nat) (xr : list V) (ws : list (nat * list V)) : Prop :=
    let W := expanded_width p (map (@length nat) (mappers enc)) in
    Forall2 (write_of_col enc xr) ws (write_order (cat_cols enc) p) /\
    Permutation (write_order (cat_cols enc) p) (seq 0 p) /\
    length ws = p /\
    Forall (fun w => fst w + length (snd w) <= W) ws /\
    (forall q, q < W -> length (filter (in_range q) ws) = 1) /\
    (forall q, W <= q -> filter (in_range q) ws = []).

  Lemma count_Forall2 (enc : encoder) (xr : list V) : forall ws js,
    Forall2 (write_of_col enc xr) ws js ->
    forall q, length (filter (in_range q) ws) =
              length (filter (col_range (zip (cat_cols enc) (map (@length nat) (mappers enc))) q) js).
  Proof.
    induction 1 as [|w j ws js Hwj _ IH]; intro q; [reflexivity|].
    cbn [filter]. destruct Hwj as [H1 [H2 _]].
    assert (E : in_range q w = col_range (zip (cat_cols enc) (map (@length nat) (mappers enc))) q j).
    { unfold in_range, col_range. rewrite H1, H2. reflexivity. }
    rewrite E. destruct (col_range _ q j); cbn [length]; rewrite IH; reflexivity.
  Qed.

  Theorem row_writes_tile : forall enc p xr ws,
    enc_wf enc p -> row_writes enc p xr = Some ws -> writes_tile enc p xr ws.
  Proof.
    intros enc p xr ws [Hlen [Hs [Hlt Hne]]] Hws.
    set (idxs := cat_cols enc) in *. set (mps := mappers enc) in *.
    set (sizes := map (@length nat) mps) in *.
    set (cats := zip idxs sizes).
    set (new_idx := find_new_idxs p sizes idxs).
    assert (Hperm : Permutation (write_order idxs p) (seq 0 p)) by (eapply write_order_perm; eassumption).
    assert (Hnl : length new_idx = p).
    { unfold new_idx. apply find_new_idxs_length; [apply (Hlen' enc Hlen)|assumption|assumption]. }
    assert (HW : expanded_width p sizes = ni cats p) by (apply (W_ni enc p Hlen Hlt Hne)).
    (* the one-to-one correspondence writes <-> columns *)
    assert (HF : Forall2 (write_of_col enc xr) ws (write_order idxs p)).
    { unfold row_writes in Hws. fold idxs mps sizes new_idx in Hws.
      destruct (all_some (map (cat_write vzero vone to_cat enc new_idx xr) (zip (seq 0 (length idxs)) idxs)))
        as [cws|] eqn:Ec; [|discriminate].
      cbn [option_map] in Hws. inversion Hws; subst ws; clear Hws.
      unfold write_order. apply Forall2_app.
      - (* categorical writes *)
        rewrite <- (map_snd_zip_seq idxs 0) at 1.
        apply (all_some_Forall2_map (cat_write vzero vone to_cat enc new_idx xr) snd); [|exact Ec].
        intros [pidx c] w Hin Hw. apply zip_seq_In in Hin. rewrite Nat.sub_0_r in Hin.
        destruct Hin as [_ Hc]. cbn [snd].
        assert (Hcp : c < p) by (apply Hlt; eapply nth_error_In; eassumption).
        unfold cat_write, get_one_hot in Hw. cbn [fst snd] in Hw. fold mps in Hw.
        destruct (get_num (nth pidx mps []) (to_cat (nth c xr vzero))) as [i|] eqn:Ei; [|discriminate].
        cbn [option_map] in Hw. inversion Hw; subst w; clear Hw. unfold write_of_col. cbn [fst snd].
        fold idxs mps sizes cats. split; [|split].
        + apply (new_idx_ni enc p Hlen Hs Hlt Hne c Hcp).
        + unfold make_one_hot. rewrite map_length, seq_length. symmetry.
          apply (width_pair enc Hlen Hs Hne pidx c Hc).
        + left. exists pidx, i. fold idxs mps. auto.
      - (* plain writes *)
        rewrite (plain_writes_spec vzero p 0 idxs new_idx xr Hs).
        rewrite <- Hnl at 1 2. rewrite zip_seq_as_map, Hnl. rewrite filter_map_comm, map_map.
        cbn [fst snd]. apply Forall2_map_self.
        intros j Hj. apply filter_In in Hj. destruct Hj as [Hj Hm]. apply in_seq in Hj.
        assert (Hnin : ~ In j idxs).
        { intro Hc. apply (proj2 (mem_nat_In j idxs)) in Hc. rewrite Hc in Hm. discriminate. }
        unfold write_of_col. cbn [fst snd length]. fold idxs mps sizes cats. rewrite Nat.sub_0_r.
        split; [|split].
        + apply (new_idx_ni enc p Hlen Hs Hlt Hne j). lia.
        + symmetry. apply width_plain. assumption.
        + right. split; [assumption|reflexivity]. }
    assert (Hcount : forall q, length (filter (in_range q) ws) = if q <? ni cats p then 1 else 0).
    { intro q. rewrite (count_Forall2 enc xr ws _ HF q). fold idxs mps sizes cats.
      rewrite (Permutation_filter_length _ _ _ Hperm). apply count_cols_seq. }
    unfold writes_tile. fold idxs mps sizes. rewrite HW.
    split; [exact HF|]. split; [exact Hperm|]. split; [|split; [|split]].
    - rewrite (Forall2_len _ _ _ HF), (Permutation_length Hperm). apply seq_length.
    - apply (Forall2_Forall_l _ _ _ _ HF). intros w j Hj [H1 [H2 _]].
      fold idxs mps sizes cats in H1, H2. rewrite H1, H2. apply ni_mono.
      apply (Permutation_in _ Hperm) in Hj. apply in_seq in Hj. lia.
    - intros q Hq. rewrite Hcount. destruct (Nat.ltb_spec q (ni cats p)); [reflexivity|lia].
    - intros q Hq. apply length_zero_iff_nil. rewrite Hcount.
      destruct (Nat.ltb_spec q (ni cats p)); [lia|reflexivity].
  Qed.

  (* consequence of disjointness: every write survives — no cell of a write is overwritten by
     another write, so the final row holds each block at its place *)
  Theorem writes_survive : forall enc p xr ws w t,
    writes_tile enc p xr ws -> In w ws -> t < length (snd w) ->
    nth (fst w + t) (apply_writes (zero_row enc p) ws) vzero = nth t (snd w) vzero.
  Proof.
    intros enc p xr ws w t [_ [_ [_ [Hb [H1 _]]]]] Hw Ht.
    assert (Hr : in_range (fst w + t) w = true).
    { unfold in_range. destruct (Nat.leb_spec (fst w) (fst w + t)); [|lia].
      destruct (Nat.ltb_spec (fst w + t) (fst w + length (snd w))); [reflexivity|lia]. }
    assert (HqW : fst w + t < expanded_width p (map (@length nat) (mappers enc))).
    { rewrite Forall_forall in Hb. specialize (Hb w Hw). lia. }
    apply apply_writes_val.
    - unfold zero_row. rewrite repeat_length. exact Hb.
    - exists w. split; assumption.
    - intros w' Hw' Hr'.
      assert (w = w') by (eapply (filter_singleton_eq (in_range (fst w + t)) ws); eauto).
      subst w'. replace (fst w + t - fst w) with t by lia. reflexivity.
  Qed.

  (* the row-level statement in one piece, `writes_tile` spelled out *)
  Theorem transform_row_tiling : forall enc p xr,
    enc_wf enc p ->
    transform_row vzero vone to_cat enc p xr =
      option_map (apply_writes (zero_row enc p)) (row_writes enc p xr) /\
    forall ws, row_writes enc p xr = Some ws ->
      let W := expanded_width p (map (@length nat) (mappers enc)) in
      Forall2 (write_of_col enc xr) ws (write_order (cat_cols enc) p) /\
      Permutation (write_order (cat_cols enc) p) (seq 0 p) /\
      length ws = p /\
      Forall (fun w => fst w + length (snd w) <= W) ws /\
      (forall q, q < W -> length (filter (in_range q) ws) = 1) /\
      (forall q, W <= q -> filter (in_range q) ws = []) /\
      (forall w t, In w ws -> t < length (snd w) ->
         nth (fst w + t) (apply_writes (zero_row enc p) ws) vzero = nth t (snd w) vzero).
  Proof.
    intros enc p xr Hwf. split; [apply transform_row_is_writes|]. intros ws Hws W.
    pose proof (row_writes_tile enc p xr ws Hwf Hws) as HT.
    destruct HT as [H1 [H2 [H3 [H4 [H5 H6]]]]].
    repeat (split; [assumption|]).
    intros w t Hw Ht. apply (writes_survive enc p xr ws w t); [|assumption|assumption].
    unfold writes_tile. repeat (split; [assumption|]). assumption.
  Qed.

  (* whole matrix, any well-formed encoder, any accepted input *)
  Theorem transform_writes_tile : forall enc p x r,
    enc_wf enc p -> transform vzero vone to_cat enc p x = Some r ->
    Forall2 (fun xr row => exists ws, row_writes enc p xr = Some ws /\
                                      row = apply_writes (zero_row enc p) ws /\
                                      writes_tile enc p xr ws) x r.
  Proof.
    intros enc p x r Hwf H. rewrite transform_is_writes in H.
    apply all_some_Forall2_eq in H.
    eapply Forall2_imp; [|exact H]. cbn beta. intros xr row E.
    destruct (row_writes enc p xr) as [ws|] eqn:Ews; [|discriminate]. cbn [option_map] in E.
    inversion E. exists ws. split; [reflexivity|]. split; [reflexivity|].
    apply row_writes_tile; assumption.
  Qed.
End Writes.

(* `fit` returns a well-formed encoder *)
Lemma fit_wf {V : Type} (vzero : V) (to_cat : V -> nat) (valid : V -> bool) :
  forall (x : list (list V)) (idxs : list nat) (p : nat) enc,
  x <> [] -> NoDup idxs -> (forall c, In c idxs -> c < p) ->
  fit vzero to_cat valid x idxs = Some enc -> enc_wf enc p.
Proof.
  intros x idxs p enc Hx Hnd Hlt Hfit. unfold fit in Hfit.
  destruct (forallb _ (sort_nat idxs)); [|discriminate]. inversion Hfit; subst enc; clear Hfit.
  unfold enc_wf. cbn [cat_cols mappers]. split; [apply map_length|]. split; [apply sort_nat_sorted; assumption|].
  split.
  - intros c Hc. apply Hlt. apply (Permutation_in _ (sort_nat_perm idxs)). assumption.
  - apply Forall_forall. intros m Hm. apply in_map_iff in Hm. destruct Hm as [c [E _]]. subst m.
    apply fit_to_iter_nonempty. unfold column. destruct x; [contradiction|discriminate].
Qed.

Theorem fit_transform_writes {V : Type} (vzero vone : V) (to_cat : V -> nat) (valid : V -> bool) :
  forall (x : list (list V)) (idxs : list nat) (p : nat) enc,
  x <> [] -> NoDup idxs -> (forall c, In c idxs -> c < p) ->
  fit vzero to_cat valid x idxs = Some enc ->
  enc_wf enc p /\
  exists r, transform vzero vone to_cat enc p x = Some r /\
    Forall2 (fun xr row => exists ws, row_writes vzero vone to_cat enc p xr = Some ws /\
                                      row = apply_writes (zero_row vzero enc p) ws /\
                                      writes_tile vzero vone to_cat enc p xr ws) x r.
Proof.
  intros x idxs p enc Hx Hnd Hlt Hfit.
  pose proof (fit_wf vzero to_cat valid x idxs p enc Hx Hnd Hlt Hfit) as Hwf. split; [exact Hwf|].
  destruct (onehot_layout vzero vone to_cat valid x idxs p enc Hx Hnd Hlt Hfit) as [_ [_ [r [Hr _]]]].
  exists r. split; [exact Hr|]. apply transform_writes_tile; assumption.
Qed.
