(* C18 — whole-matrix layout theorem for the one-hot encoder model: every row of
   `transform (fit x idxs) x` has the plain columns unchanged at their new positions and, for each
   categorical column, an indicator block with exactly one `vone` at the row's category. *)
From Coq Require Import List Arith Bool Lia Permutation.
From SC Require Import C18.Model C18.Proofs.
Import ListNotations.


Section Layout.
  Context {V : Type} (vzero vone : V) (to_cat : V -> nat).

  Lemma set_nth_length (l : list V) i v : length (set_nth l i v) = length l.
  Proof.
    unfold set_nth. destruct (Nat.ltb_spec i (length l)) as [H|H]; [|reflexivity].
    rewrite app_length, firstn_length. cbn [length]. rewrite skipn_length. lia.
  Qed.

  Lemma nth_set_nth (l : list V) i v q d :
    nth q (set_nth l i v) d = if (q =? i) && (i <? length l) then v else nth q l d.
  Proof.
    unfold set_nth. destruct (Nat.ltb_spec i (length l)) as [H|H].
    - destruct (Nat.eqb_spec q i) as [E|E]; cbn [andb].
      + subst. rewrite app_nth2 by (rewrite firstn_length; lia).
        rewrite firstn_length. replace (i - Nat.min i (length l)) with 0 by lia. reflexivity.
      + destruct (Nat.lt_ge_cases q i) as [Hq|Hq].
        * rewrite app_nth1 by (rewrite firstn_length; lia).
          rewrite <- (firstn_skipn i l) at 2. rewrite app_nth1 by (rewrite firstn_length; lia). reflexivity.
        * rewrite app_nth2 by (rewrite firstn_length; lia). rewrite firstn_length.
          replace (Nat.min i (length l)) with i by lia.
          destruct (q - i) as [|k] eqn:Ek; [lia|]. cbn [nth].
          rewrite <- (firstn_skipn (S i) l) at 2.
          rewrite app_nth2 by (rewrite firstn_length; lia). rewrite firstn_length.
          replace (q - Nat.min (S i) (length l)) with k by lia. reflexivity.
    - rewrite andb_false_r. reflexivity.
  Qed.

  (* a block write *)
  Lemma write_block_aux : forall (blk : list V) (o : nat) (row : list V) (s q : nat) d,
    let r := fold_left (fun acc ov => set_nth acc (s + fst ov) (snd ov)) (zip (seq o (length blk)) blk) row in
    length r = length row /\
    (s + o + length blk <= length row ->
     nth q r d = if (s + o <=? q) && (q <? s + o + length blk) then nth (q - (s + o)) blk d else nth q row d).
  Proof.
    induction blk as [|b blk IH]; intros o row s q d; cbn [length seq zip fold_left].
    - split; [reflexivity|]. intros _. destruct (Nat.leb_spec (s + o) q), (Nat.ltb_spec q (s + o + 0)); cbn; try reflexivity; lia.
    - cbn [fst snd]. specialize (IH (S o) (set_nth row (s + o) b) s q d). cbn zeta in IH.
      destruct IH as [IH1 IH2]. rewrite set_nth_length in IH1, IH2. split; [exact IH1|].
      intro Hb. rewrite IH2 by lia. rewrite nth_set_nth.
      destruct (Nat.leb_spec (s + S o) q), (Nat.ltb_spec q (s + S o + length blk)),
               (Nat.leb_spec (s + o) q), (Nat.ltb_spec q (s + o + S (length blk))),
               (Nat.eqb_spec q (s + o)), (Nat.ltb_spec (s + o) (length row)); cbn [andb]; try lia; try reflexivity.
      + replace (q - (s + o)) with (S (q - (s + S o))) by lia. reflexivity.
      + subst q. replace (s + o - (s + o)) with 0 by lia. reflexivity.
  Qed.

  Lemma write_block_length_aux : forall (blk : list V) (o : nat) (row : list V) (s : nat),
    length (fold_left (fun acc ov => set_nth acc (s + fst ov) (snd ov)) (zip (seq o (length blk)) blk) row) = length row.
  Proof.
    induction blk as [|b blk IH]; intros o row s; cbn [length seq zip fold_left]; [reflexivity|].
    rewrite IH. apply set_nth_length.
  Qed.
  Lemma write_block_length (row : list V) s blk : length (write_block row s blk) = length row.
  Proof. unfold write_block. apply write_block_length_aux. Qed.

  Lemma write_block_nth (row : list V) s blk q d :
    s + length blk <= length row ->
    nth q (write_block row s blk) d =
    if (s <=? q) && (q <? s + length blk) then nth (q - s) blk d else nth q row d.
  Proof.
    intro H. unfold write_block. destruct (write_block_aux blk 0 row s q d) as [_ H2].
    cbn zeta in H2. rewrite H2 by lia. rewrite !Nat.add_0_r. reflexivity.
  Qed.

  (* a sequence of block writes *)
  Definition apply_writes (row : list V) (ws : list (nat * list V)) : list V :=
    fold_left (fun r w => write_block r (fst w) (snd w)) ws row.
  Definition in_range (q : nat) (w : nat * list V) : bool := (fst w <=? q) && (q <? fst w + length (snd w)).

  Lemma apply_writes_length : forall ws row, length (apply_writes row ws) = length row.
  Proof. induction ws as [|w ws IH]; intro row; cbn; [reflexivity|]. unfold apply_writes in IH. rewrite IH. apply write_block_length. Qed.

  Lemma apply_writes_out : forall ws row q d,
    Forall (fun w => fst w + length (snd w) <= length row) ws ->
    Forall (fun w => in_range q w = false) ws ->
    nth q (apply_writes row ws) d = nth q row d.
  Proof.
    induction ws as [|w ws IH]; intros row q d Hb Ho; [reflexivity|].
    inversion Hb as [|? ? Hb1 Hb2]; inversion Ho as [|? ? Ho1 Ho2]; subst.
    cbn [apply_writes fold_left]. fold (apply_writes (write_block row (fst w) (snd w)) ws).
    rewrite IH; [| rewrite write_block_length; assumption | assumption].
    rewrite write_block_nth by assumption. unfold in_range in Ho1. rewrite Ho1. reflexivity.
  Qed.

  Lemma apply_writes_in : forall ws1 w ws2 row q d,
    Forall (fun w => fst w + length (snd w) <= length row) (ws1 ++ w :: ws2) ->
    in_range q w = true ->
    Forall (fun w => in_range q w = false) ws2 ->
    nth q (apply_writes row (ws1 ++ w :: ws2)) d = nth (q - fst w) (snd w) d.
  Proof.
    induction ws1 as [|w1 ws1 IH]; intros w ws2 row q d Hb Hi Ho.
    - cbn [app apply_writes fold_left]. fold (apply_writes (write_block row (fst w) (snd w)) ws2).
      inversion Hb as [|? ? Hb1 Hb2]; subst.
      rewrite apply_writes_out; [| rewrite write_block_length; assumption | assumption].
      rewrite write_block_nth by assumption. unfold in_range in Hi. rewrite Hi. reflexivity.
    - cbn [app apply_writes fold_left]. fold (apply_writes (write_block row (fst w1) (snd w1)) (ws1 ++ w :: ws2)).
      inversion Hb as [|? ? Hb1 Hb2]; subst.
      apply IH; [rewrite write_block_length; assumption | assumption | assumption].
  Qed.
End Layout.


Section Layout2.
  Context {V : Type} (vzero vone : V) (to_cat : V -> nat).

  (* ---- write_cats as a list of block writes ---- *)
  Definition cat_write (enc : encoder) (new_idx : list nat) (xr : list V) (pc : nat * nat) : option (nat * list V) :=
    option_map (fun oh => (nth (snd pc) new_idx 0, oh))
               (get_one_hot vzero vone (nth (fst pc) (mappers enc) []) (to_cat (nth (snd pc) xr vzero))).

  Lemma write_cats_fold : forall pairs enc new_idx xr row,
    fold_left
      (fun acc pc =>
         match acc with
         | None => None
         | Some row =>
           let '(pidx, old_c) := pc in
           match get_one_hot vzero vone (nth pidx (mappers enc) []) (to_cat (nth old_c xr vzero)) with
           | None => None
           | Some oh => Some (write_block row (nth old_c new_idx 0) oh)
           end
         end) pairs (Some row)
    = option_map (apply_writes row) (all_some (map (cat_write enc new_idx xr) pairs)).
  Proof.
    induction pairs as [|[pidx c] pairs IH]; intros enc new_idx xr row; [reflexivity|].
    cbn [fold_left map all_some]. unfold cat_write at 1. cbn [fst snd].
    destruct (get_one_hot vzero vone (nth pidx (mappers enc) []) (to_cat (nth c xr vzero))) as [oh|] eqn:E; cbn [option_map].
    - rewrite IH. destruct (all_some (map (cat_write enc new_idx xr) pairs)); reflexivity.
    - clear. induction pairs as [|x pairs IH]; [reflexivity|]. cbn [fold_left]. exact IH.
  Qed.

  (* ---- write_plain as a list of singleton writes ---- *)
  Fixpoint plain_writes (skip : list nat) (cols : list (nat * nat)) (xr : list V) : list (nat * list V) :=
    match cols with
    | [] => []
    | (old_p, new_p) :: t =>
      match skip with
      | v :: skip' =>
        if Nat.eqb v old_p then plain_writes skip' t xr
        else (new_p, [nth old_p xr vzero]) :: plain_writes skip t xr
      | [] => (new_p, [nth old_p xr vzero]) :: plain_writes skip t xr
      end
    end.

  Lemma write_block_single (row : list V) s v : write_block row s [v] = set_nth row s v.
  Proof. unfold write_block. cbn. rewrite Nat.add_0_r. reflexivity. Qed.

  Lemma write_plain_writes : forall cols skip xr row,
    write_plain vzero skip cols xr row = apply_writes row (plain_writes skip cols xr).
  Proof.
    induction cols as [|[o n] cols IH]; intros skip xr row; [reflexivity|].
    cbn [write_plain plain_writes]. destruct skip as [|v skip'].
    - rewrite IH. cbn [apply_writes fold_left fst snd]. rewrite write_block_single. reflexivity.
    - destruct (Nat.eqb v o); [apply IH|].
      rewrite IH. cbn [apply_writes fold_left fst snd]. rewrite write_block_single. reflexivity.
  Qed.

  (* with a strictly increasing skip list whose head is >= the first column, the pointer logic
     is membership: column o is written iff o is not in skip *)
  Lemma plain_writes_spec : forall len a skip (new_idx : list nat) xr,
    sorted_lt a skip ->
    plain_writes skip (zip (seq a len) new_idx) xr =
    map (fun on => (snd on, [nth (fst on) xr vzero]))
        (filter (fun on => negb (mem_nat (fst on) skip)) (zip (seq a len) new_idx)).
  Proof.
    induction len as [|len IH]; intros a skip new_idx xr Hs; [reflexivity|].
    destruct new_idx as [|n new_idx]; [reflexivity|].
    cbn [seq zip plain_writes filter fst].
    destruct skip as [|v skip'].
    - cbn [mem_nat existsb negb map fst snd]. f_equal. apply (IH (S a) [] new_idx xr). exact I.
    - destruct Hs as [Hav Hs]. unfold mem_nat. cbn [existsb].
      destruct (Nat.eqb_spec v a) as [E|E].
      + subst v. rewrite Nat.eqb_refl. cbn [orb negb].
        rewrite (IH (S a) skip' new_idx xr Hs).
        (* membership in skip' vs a :: skip' agrees on columns > a *)
        f_equal. apply filter_ext_in. intros [o n'] Hin. cbn [fst].
        assert (Ho : S a <= o).
        { apply zip_In_l in Hin. apply in_seq in Hin. lia. }
        unfold mem_nat. cbn [existsb]. destruct (Nat.eqb_spec o a); [lia|]. reflexivity.
      + assert (Hlt : a < v) by lia.
        replace (Nat.eqb a v) with false by (symmetry; apply Nat.eqb_neq; lia).
        cbn [orb].
        assert (Hnot : existsb (Nat.eqb a) skip' = false).
        { clear - Hs Hlt. revert v Hs Hlt. induction skip' as [|w skip' IH2]; intros v Hs Hlt; [reflexivity|].
          destruct Hs as [Hw Hs]. cbn [existsb]. destruct (Nat.eqb_spec a w); [lia|]. cbn [orb].
          apply (IH2 w Hs). lia. }
        rewrite Hnot. cbn [negb map fst snd]. f_equal.
        apply (IH (S a) (v :: skip') new_idx xr). split; [lia|assumption].
  Qed.
End Layout2.


(* ---------- positions ---------- *)
Definition ni (cats : list (nat * nat)) (j : nat) : nat := j + extra_before j cats.
Definition width (cats : list (nat * nat)) (j : nat) : nat :=
  S (extra_before (S j) cats - extra_before j cats).

Lemma ni_step cats j : ni cats (S j) = ni cats j + width cats j.
Proof. unfold ni, width. pose proof (extra_before_step cats j). lia. Qed.

Lemma ni_mono cats : forall j j', j < j' -> ni cats j + width cats j <= ni cats j'.
Proof.
  intros j j' H. induction H as [|j' H IH].
  - rewrite ni_step. lia.
  - rewrite ni_step. lia.
Qed.

Lemma position_unique cats j j' t :
  t < width cats j -> ni cats j' <= ni cats j + t -> ni cats j + t < ni cats j' + width cats j' -> j = j'.
Proof.
  intros Ht H1 H2. destruct (Nat.lt_trichotomy j j') as [H|[H|H]]; [|assumption|].
  - pose proof (ni_mono cats j j' H). lia.
  - pose proof (ni_mono cats j' j H). lia.
Qed.

Lemma extra_before_plain : forall (idxs sizes : list nat) j,
  ~ In j idxs -> extra_before (S j) (zip idxs sizes) = extra_before j (zip idxs sizes).
Proof.
  induction idxs as [|v idxs IH]; intros sizes j Hn; [reflexivity|].
  destruct sizes as [|k sizes]; [reflexivity|]. cbn [zip extra_before].
  rewrite IH by (intro; apply Hn; right; assumption).
  assert (v <> j) by (intro; apply Hn; left; assumption).
  destruct (Nat.ltb_spec v (S j)), (Nat.ltb_spec v j); lia.
Qed.

Lemma width_plain (idxs sizes : list nat) j : ~ In j idxs -> width (zip idxs sizes) j = 1.
Proof. intro H. unfold width. rewrite extra_before_plain by assumption. lia. Qed.

Lemma width_cat (idxs sizes : list nat) lo c k :
  sorted_lt lo idxs -> length idxs = length sizes -> Forall (fun k => 1 <= k) sizes ->
  In (c, k) (zip idxs sizes) -> width (zip idxs sizes) c = k.
Proof.
  intros Hs Hl Hk Hin. unfold width. rewrite (extra_before_block idxs sizes lo c k) by assumption.
  pose proof (zip_In_size _ _ _ _ Hk Hin). lia.
Qed.

Lemma fold_widths : forall sizes a, Forall (fun k => 1 <= k) sizes ->
  fold_left (fun cs v => cs + v - 1) sizes a = a + fold_right (fun v s => (v - 1) + s) 0 sizes.
Proof.
  induction sizes as [|k sizes IH]; intros a H; cbn [fold_left fold_right]; [lia|].
  inversion H; subst. rewrite IH by assumption. lia.
Qed.

Lemma extra_before_all : forall (idxs sizes : list nat) p,
  length idxs = length sizes -> (forall c, In c idxs -> c < p) ->
  extra_before p (zip idxs sizes) = fold_right (fun v s => (v - 1) + s) 0 sizes.
Proof.
  induction idxs as [|v idxs IH]; intros sizes p Hl Hlt; destruct sizes as [|k sizes]; try discriminate; [reflexivity|].
  cbn [zip extra_before fold_right]. cbn [length] in Hl.
  rewrite (IH sizes p) by (try lia; intros c Hc; apply Hlt; right; assumption).
  assert (v < p) by (apply Hlt; left; reflexivity). destruct (Nat.ltb_spec v p); lia.
Qed.

Lemma expanded_width_ni (idxs sizes : list nat) p :
  length idxs = length sizes -> (forall c, In c idxs -> c < p) -> Forall (fun k => 1 <= k) sizes ->
  expanded_width p sizes = ni (zip idxs sizes) p.
Proof.
  intros Hl Hlt Hk. unfold expanded_width, ni. rewrite fold_widths by assumption.
  rewrite (extra_before_all idxs sizes p) by assumption. lia.
Qed.

(* value lemma for a list of writes *)
Section Val.
  Context {V : Type}.
  Lemma apply_writes_app (row : list V) ws1 ws2 :
    apply_writes (apply_writes row ws1) ws2 = apply_writes row (ws1 ++ ws2).
  Proof. unfold apply_writes. rewrite fold_left_app. reflexivity. Qed.

  Lemma apply_writes_val : forall ws (row : list V) q d val,
    Forall (fun w => fst w + length (snd w) <= length row) ws ->
    (exists w, In w ws /\ in_range q w = true) ->
    (forall w', In w' ws -> in_range q w' = true -> nth (q - fst w') (snd w') d = val) ->
    nth q (apply_writes row ws) d = val.
  Proof.
    induction ws as [|wl ws IH] using rev_ind; intros row q d val Hb [w [Hin Hr]] Hval; [destruct Hin|].
    rewrite <- apply_writes_app. cbn [apply_writes fold_left].
    fold (apply_writes row ws).
    apply Forall_app in Hb. destruct Hb as [Hb1 Hb2]. inversion Hb2 as [|? ? Hbl _]; subst.
    rewrite write_block_nth by (rewrite apply_writes_length; assumption).
    destruct ((fst wl <=? q) && (q <? fst wl + length (snd wl))) eqn:E.
    - apply Hval; [apply in_or_app; right; left; reflexivity | exact E].
    - apply IH; [assumption | | ].
      + apply in_app_or in Hin. destruct Hin as [Hin|[Hin|[]]].
        * exists w. split; assumption.
        * subst w. unfold in_range in Hr. congruence.
      + intros w' Hw' Hr'. apply Hval; [apply in_or_app; left; assumption | assumption].
  Qed.
End Val.


Lemma all_some_map {A B} (f : A -> option B) : forall l,
  (forall x, In x l -> exists y, f x = Some y) ->
  exists ys, all_some (map f l) = Some ys /\
             (forall y, In y ys <-> exists x, In x l /\ f x = Some y).
Proof.
  induction l as [|a l IH]; intro H.
  - exists []. split; [reflexivity|]. intro y. split; [intros []|intros [x [[] _]]].
  - destruct (H a (or_introl eq_refl)) as [b Hb].
    destruct IH as [ys [E Hys]]; [intros x Hx; apply H; right; assumption|].
    exists (b :: ys). split.
    + cbn [map all_some]. rewrite Hb, E. reflexivity.
    + intro y. split.
      * intros [Ey|Hy]; [subst; exists a; split; [left; reflexivity|assumption]|].
        apply Hys in Hy. destruct Hy as [x [Hx Hf]]. exists x. split; [right; assumption|assumption].
      * intros [x [[Ex|Hx] Hf]]; [subst; left; congruence|]. right. apply Hys. exists x. split; assumption.
Qed.

Lemma zip_seq_In {A} : forall (l : list A) a i x, In (i, x) (zip (seq a (length l)) l) <-> (a <= i /\ nth_error l (i - a) = Some x).
Proof.
  induction l as [|y l IH]; intros a i x; cbn [length seq zip].
  - split; [intros []|]. intros [_ H]. destruct (i - a); discriminate.
  - split.
    + intros [E|H].
      * inversion E; subst. split; [lia|]. rewrite Nat.sub_diag. reflexivity.
      * apply IH in H. destruct H as [H1 H2]. split; [lia|].
        replace (i - a) with (S (i - S a)) by lia. exact H2.
    + intros [H1 H2]. destruct (i - a) as [|k] eqn:E.
      * cbn in H2. inversion H2; subst. left. f_equal. lia.
      * right. apply IH. split; [lia|]. replace (i - S a) with k by lia. exact H2.
Qed.

Lemma zip_nth_error {A B} : forall (l1 : list A) (l2 : list B) i a b,
  nth_error l1 i = Some a -> nth_error l2 i = Some b -> In (a, b) (zip l1 l2).
Proof.
  induction l1 as [|x l1 IH]; intros l2 i a b H1 H2; destruct i; destruct l2; cbn in *; try discriminate.
  - inversion H1; inversion H2; subst. left; reflexivity.
  - right. eapply IH; eassumption.
Qed.

Lemma sorted_lt_nth_inj : forall l lo i j x, sorted_lt lo l ->
  nth_error l i = Some x -> nth_error l j = Some x -> i = j.
Proof.
  assert (G : forall l lo i x, sorted_lt lo l -> nth_error l i = Some x -> lo <= x).
  { induction l as [|v l IH]; intros lo i x Hs H; destruct i; cbn in *; try discriminate.
    - inversion H; subst. tauto.
    - destruct Hs as [H1 H2]. specialize (IH _ _ _ H2 H). lia. }
  induction l as [|v l IH]; intros lo i j x Hs Hi Hj; destruct i, j; cbn in *; try discriminate; try reflexivity.
  - inversion Hi; subst. destruct Hs as [_ Hs]. pose proof (G _ _ _ _ Hs Hj). lia.
  - inversion Hj; subst. destruct Hs as [_ Hs]. pose proof (G _ _ _ _ Hs Hi). lia.
  - f_equal. destruct Hs as [_ Hs]. eapply IH; eassumption.
Qed.

Lemma zip_In_nth {A B} : forall (l1 : list A) (l2 : list B) a b,
  In (a, b) (zip l1 l2) -> exists i, nth_error l1 i = Some a /\ nth_error l2 i = Some b.
Proof.
  induction l1 as [|x l1 IH]; intros [|y l2] a b H; cbn in H; try (destruct H; fail).
  destruct H as [E|H].
  - inversion E; subst. exists 0. split; reflexivity.
  - destruct (IH _ _ _ H) as [i [H1 H2]]. exists (S i). split; assumption.
Qed.

Section Row.
  Context {V : Type} (vzero vone : V) (to_cat : V -> nat).
  Variable enc : encoder.
  Variable p : nat.
  Let idxs := cat_cols enc.
  Let mps := mappers enc.
  Let sizes := map (@length nat) mps.
  Let cats := zip idxs sizes.
  Let new_idx := find_new_idxs p sizes idxs.

  Hypothesis Hlen : length mps = length idxs.
  Hypothesis Hs : sorted_lt 0 idxs.
  Hypothesis Hlt : forall c, In c idxs -> c < p.
  Hypothesis Hne : Forall (fun m : list nat => 1 <= length m) mps.

  Lemma Hlen' : length idxs = length sizes.
  Proof. unfold sizes. rewrite map_length. symmetry. exact Hlen. Qed.
  Lemma Hk : Forall (fun k => 1 <= k) sizes.
  Proof. unfold sizes. apply Forall_forall. intros k Hin. apply in_map_iff in Hin. destruct Hin as [m [E Hm]]. subst.
         rewrite Forall_forall in Hne. apply Hne. assumption. Qed.
  Lemma new_idx_ni j : j < p -> nth j new_idx 0 = ni cats j.
  Proof. intro H. unfold new_idx, ni, cats. apply find_new_idxs_nth; auto using Hlen', Hk. Qed.

  Lemma pair_in_cats pidx c : nth_error idxs pidx = Some c -> In (c, length (nth pidx mps [])) cats.
  Proof.
    intro H. unfold cats. apply (zip_nth_error idxs sizes pidx); [assumption|].
    unfold sizes. assert (pidx < length mps).
    { rewrite Hlen. apply nth_error_Some. congruence. }
    rewrite (nth_error_nth' _ 0) by (rewrite map_length; assumption). f_equal.
    change 0 with (length (@nil nat)). rewrite map_nth. reflexivity.
  Qed.
  Lemma width_pair pidx c : nth_error idxs pidx = Some c -> width cats c = length (nth pidx mps []).
  Proof. intro H. unfold cats. apply (width_cat idxs sizes 0 c _ Hs Hlen' Hk). apply pair_in_cats. assumption. Qed.

  Lemma W_ni : expanded_width p sizes = ni cats p.
  Proof. unfold cats. apply expanded_width_ni; auto using Hlen', Hk. Qed.

  Variable xr : list V.
  Hypothesis Hknown : forall pidx c, nth_error idxs pidx = Some c ->
    exists i, get_num (nth pidx mps []) (to_cat (nth c xr vzero)) = Some i.

  Theorem transform_row_layout :
    exists row, transform_row vzero vone to_cat enc p xr = Some row /\
      length row = expanded_width p sizes /\
      (forall j, j < p -> ~ In j idxs -> nth (ni cats j) row vzero = nth j xr vzero) /\
      (forall pidx c i t, nth_error idxs pidx = Some c ->
         get_num (nth pidx mps []) (to_cat (nth c xr vzero)) = Some i ->
         t < length (nth pidx mps []) ->
         nth (ni cats c + t) row vzero = if Nat.eqb t i then vone else vzero).
  Proof.
    unfold transform_row, write_cats.
    rewrite (write_cats_fold vzero vone to_cat).
    fold idxs mps sizes new_idx.
    set (row0 := repeat vzero (expanded_width p sizes)).
    set (pairs := zip (seq 0 (length idxs)) idxs).
    assert (Hpairs : forall pidx c, In (pidx, c) pairs <-> nth_error idxs pidx = Some c).
    { intros pidx c. unfold pairs. rewrite zip_seq_In. rewrite Nat.sub_0_r. split; [tauto|]. split; [lia|assumption]. }
    destruct (all_some_map (cat_write vzero vone to_cat enc new_idx xr) pairs) as [ws [Ews Hws]].
    { intros [pidx c] Hin. apply Hpairs in Hin. destruct (Hknown _ _ Hin) as [i Hi].
      unfold cat_write, get_one_hot. cbn [fst snd]. fold mps. rewrite Hi. cbn. eexists; reflexivity. }
    rewrite Ews. cbn [option_map].
    rewrite write_plain_writes, apply_writes_app.
    set (pws := plain_writes vzero idxs (zip (seq 0 p) new_idx) xr).
    eexists. split; [reflexivity|].
    assert (Hrow0 : length row0 = ni cats p) by (unfold row0; rewrite repeat_length; apply W_ni).
    (* shape of the writes *)
    assert (Hcw : forall w, In w ws -> exists pidx c i, nth_error idxs pidx = Some c /\
              get_num (nth pidx mps []) (to_cat (nth c xr vzero)) = Some i /\
              w = (ni cats c, make_one_hot vzero vone i (length (nth pidx mps [])))).
    { intros w Hw. apply Hws in Hw. destruct Hw as [[pidx c] [Hin Hf]]. apply Hpairs in Hin.
      unfold cat_write, get_one_hot in Hf. cbn [fst snd] in Hf. fold mps in Hf.
      destruct (get_num (nth pidx mps []) (to_cat (nth c xr vzero))) as [i|] eqn:Ei; [|discriminate].
      cbn in Hf. inversion Hf. exists pidx, c, i. split; [assumption|]. split; [exact Ei|].
      rewrite new_idx_ni; [reflexivity|]. apply Hlt. eapply nth_error_In; eassumption. }
    assert (Hnl : length new_idx = p).
    { unfold new_idx. apply find_new_idxs_length; auto using Hlen'. }
    assert (Hpw : forall w, In w pws <-> exists j, j < p /\ ~ In j idxs /\ w = (ni cats j, [nth j xr vzero])).
    { intro w. unfold pws. rewrite (plain_writes_spec vzero p 0 idxs new_idx xr Hs).
      rewrite in_map_iff. split.
      - intros [[o n] [E Hin]]. apply filter_In in Hin. destruct Hin as [Hin Hf]. cbn [fst snd] in *.
        apply zip_In_nth in Hin. destruct Hin as [i [H1 H2]].
        assert (Hi : i < p) by (rewrite <- (seq_length p 0); apply nth_error_Some; congruence).
        rewrite (nth_error_nth' _ 0) in H1 by (rewrite seq_length; assumption).
        rewrite seq_nth in H1 by assumption. inversion H1; subst o.
        rewrite (nth_error_nth' _ 0) in H2 by lia. inversion H2; subst n.
        exists i. split; [assumption|]. split.
        + intro Hc. apply (proj2 (mem_nat_In i idxs)) in Hc. rewrite Hc in Hf. discriminate.
        + rewrite <- E. rewrite new_idx_ni by assumption. reflexivity.
      - intros [j [Hj [Hnin E]]]. exists (j, nth j new_idx 0). split.
        + cbn [fst snd]. rewrite new_idx_ni by assumption. symmetry; assumption.
        + apply filter_In. split.
          * apply (zip_nth_error _ _ j).
            -- rewrite (nth_error_nth' _ 0) by (rewrite seq_length; assumption). rewrite seq_nth by assumption. reflexivity.
            -- apply nth_error_nth'. lia.
          * cbn [fst]. destruct (mem_nat j idxs) eqn:Em; [|reflexivity].
            apply mem_nat_In in Em. contradiction. }
    (* bounds *)
    assert (Hb : Forall (fun w => fst w + length (snd w) <= length row0) (ws ++ pws)).
    { apply Forall_forall. intros w Hw. rewrite Hrow0. apply in_app_or in Hw. destruct Hw as [Hw|Hw].
      - destruct (Hcw _ Hw) as [pidx [c [i [Hc [Hi E]]]]]. subst w. cbn [fst snd].
        unfold make_one_hot. rewrite map_length, seq_length. rewrite <- (width_pair _ _ Hc).
        apply ni_mono. apply Hlt. eapply nth_error_In; eassumption.
      - apply Hpw in Hw. destruct Hw as [j [Hj [Hn E]]]. subst w. cbn [fst snd length].
        rewrite <- (width_plain idxs sizes j Hn). apply ni_mono. assumption. }
    split; [rewrite apply_writes_length; unfold row0; apply repeat_length|].
    (* which column a write in range of a position belongs to *)
    assert (Hcol : forall w q, In w (ws ++ pws) -> in_range q w = true ->
              exists j, j < p /\ fst w = ni cats j /\ length (snd w) = width cats j /\
                        ((exists pidx i, nth_error idxs pidx = Some j /\
                             get_num (nth pidx mps []) (to_cat (nth j xr vzero)) = Some i /\
                             snd w = make_one_hot vzero vone i (length (nth pidx mps [])))
                         \/ (~ In j idxs /\ snd w = [nth j xr vzero]))).
    { intros w q Hw _. apply in_app_or in Hw. destruct Hw as [Hw|Hw].
      - destruct (Hcw _ Hw) as [pidx [c [i [Hc [Hi E]]]]]. subst w. exists c. cbn [fst snd].
        split; [apply Hlt; eapply nth_error_In; eassumption|]. split; [reflexivity|]. split.
        + unfold make_one_hot. rewrite map_length, seq_length. symmetry. apply width_pair. assumption.
        + left. exists pidx, i. auto.
      - apply Hpw in Hw. destruct Hw as [j [Hj [Hn E]]]. subst w. exists j. cbn [fst snd].
        split; [assumption|]. split; [reflexivity|]. split; [symmetry; apply width_plain; assumption|].
        right. auto. }
    split.
    - (* plain columns *)
      intros j Hj Hn.
      apply apply_writes_val; [exact Hb | |].
      + exists (ni cats j, [nth j xr vzero]). split.
        * apply in_or_app. right. apply Hpw. exists j. auto.
        * unfold in_range. cbn [fst snd length]. destruct (Nat.leb_spec (ni cats j) (ni cats j)); [|lia].
          destruct (Nat.ltb_spec (ni cats j) (ni cats j + 1)); [reflexivity|lia].
      + intros w' Hw' Hr'. destruct (Hcol w' _ Hw' Hr') as [j' [Hj' [Hf [Hl Hkind]]]].
        unfold in_range in Hr'. apply andb_prop in Hr'. destruct Hr' as [R1 R2].
        apply Nat.leb_le in R1. apply Nat.ltb_lt in R2. rewrite Hf, Hl in *.
        assert (j = j').
        { pose proof (width_plain idxs sizes j Hn) as Hw1. fold cats in Hw1.
          apply (position_unique cats j j' 0); lia. }
        subst j'. destruct Hkind as [[pidx [i [Hc _]]]|[_ Hsnd]].
        * exfalso. apply Hn. eapply nth_error_In; eassumption.
        * rewrite Hsnd. replace (ni cats j - ni cats j) with 0 by lia. reflexivity.
    - (* categorical columns *)
      intros pidx c i t Hc Hi Ht.
      assert (Hcp : c < p) by (apply Hlt; eapply nth_error_In; eassumption).
      assert (Hoh : forall k, t < k -> nth t (make_one_hot vzero vone i k) vzero = if Nat.eqb t i then vone else vzero).
      { intros k Htk. unfold make_one_hot.
        rewrite (nth_map_lt _ _ _ _ 0) by (rewrite seq_length; assumption).
        rewrite seq_nth by assumption. reflexivity. }
      apply apply_writes_val; [exact Hb | |].
      + exists (ni cats c, make_one_hot vzero vone i (length (nth pidx mps []))). split.
        * apply in_or_app. left. apply Hws. exists (pidx, c). split; [apply Hpairs; assumption|].
          unfold cat_write, get_one_hot. cbn [fst snd]. fold mps. rewrite Hi. cbn.
          rewrite new_idx_ni by assumption. reflexivity.
        * unfold in_range. cbn [fst snd]. unfold make_one_hot. rewrite map_length, seq_length.
          destruct (Nat.leb_spec (ni cats c) (ni cats c + t)); [|lia].
          destruct (Nat.ltb_spec (ni cats c + t) (ni cats c + length (nth pidx mps []))); [reflexivity|lia].
      + intros w' Hw' Hr'. destruct (Hcol w' _ Hw' Hr') as [j' [Hj' [Hf [Hl Hkind]]]].
        unfold in_range in Hr'. apply andb_prop in Hr'. destruct Hr' as [R1 R2].
        apply Nat.leb_le in R1. apply Nat.ltb_lt in R2. rewrite Hf, Hl in *.
        assert (c = j').
        { apply (position_unique cats c j' t); [rewrite (width_pair _ _ Hc); assumption | lia | lia]. }
        subst j'. destruct Hkind as [[pidx' [i' [Hc' [Hi' Hsnd]]]]|[Hn _]].
        * assert (pidx' = pidx) by (eapply sorted_lt_nth_inj; eassumption). subst pidx'.
          assert (i' = i) by congruence. subst i'. rewrite Hsnd.
          replace (ni cats c + t - ni cats c) with t by lia. apply Hoh. assumption.
        * exfalso. apply Hn. eapply nth_error_In; eassumption.
  Qed.
End Row.


(* ---------- idxs.sort_unstable() ---------- *)
Lemma insert_sorted_perm x : forall l, Permutation (insert_sorted x l) (x :: l).
Proof.
  induction l as [|y l IH]; cbn; [reflexivity|]. destruct (x <=? y); [reflexivity|].
  rewrite IH. apply perm_swap.
Qed.
Lemma sort_nat_perm : forall l, Permutation (sort_nat l) l.
Proof. induction l as [|x l IH]; cbn; [reflexivity|]. rewrite insert_sorted_perm. constructor. exact IH. Qed.

Lemma insert_sorted_lt : forall l lo x, sorted_lt lo l -> lo <= x -> ~ In x l -> sorted_lt lo (insert_sorted x l).
Proof.
  induction l as [|y l IH]; intros lo x Hs Hlo Hn; cbn.
  - split; [assumption|exact I].
  - destruct Hs as [Hy Hs]. destruct (Nat.leb_spec x y).
    + cbn. split; [assumption|]. split; [|assumption].
      assert (x <> y) by (intro; apply Hn; left; congruence). lia.
    + cbn. split; [assumption|]. apply IH; [assumption|lia|]. intro; apply Hn; right; assumption.
Qed.
Lemma sort_nat_sorted : forall l, NoDup l -> sorted_lt 0 (sort_nat l).
Proof.
  induction l as [|x l IH]; intro H; cbn; [exact I|]. inversion H; subst.
  apply insert_sorted_lt; [apply IH; assumption|lia|].
  intro Hin. apply (Permutation_in _ (sort_nat_perm l)) in Hin. contradiction.
Qed.

Lemma all_some_Forall2 {A B} (f : A -> option B) (P : A -> B -> Prop) : forall l,
  (forall a, In a l -> exists b, f a = Some b /\ P a b) ->
  exists bs, all_some (map f l) = Some bs /\ Forall2 P l bs.
Proof.
  induction l as [|a l IH]; intro H.
  - exists []. split; [reflexivity|constructor].
  - destruct (H a (or_introl eq_refl)) as [b [Hb Pb]].
    destruct IH as [bs [E F]]; [intros a' Ha'; apply H; right; assumption|].
    exists (b :: bs). split; [cbn [map all_some]; rewrite Hb, E; reflexivity|constructor; assumption].
Qed.

Section Matrix.
  Context {V : Type} (vzero vone : V) (to_cat : V -> nat) (valid : V -> bool).

  (* what one encoded row must look like, given the raw row *)
  Definition row_layout (enc : encoder) (p : nat) (xr row : list V) : Prop :=
    let cats := zip (cat_cols enc) (map (@length nat) (mappers enc)) in
    length row = expanded_width p (map (@length nat) (mappers enc)) /\
    (forall j, j < p -> ~ In j (cat_cols enc) -> nth (ni cats j) row vzero = nth j xr vzero) /\
    (forall pidx c i t, nth_error (cat_cols enc) pidx = Some c ->
       get_num (nth pidx (mappers enc) []) (to_cat (nth c xr vzero)) = Some i ->
       t < length (nth pidx (mappers enc) []) ->
       nth (ni cats c + t) row vzero = if Nat.eqb t i then vone else vzero).

  Lemma fit_to_iter_nonempty : forall l, l <> [] -> 1 <= length (fit_to_iter l).
  Proof.
    intros l H. destruct l as [|a l]; [contradiction|].
    assert (Hin : In a (fit_to_iter (a :: l))) by (apply fit_to_iter_In; left; reflexivity).
    destruct (fit_to_iter (a :: l)); [destruct Hin|cbn; lia].
  Qed.

  Theorem onehot_layout : forall (x : list (list V)) (idxs : list nat) (p : nat) enc,
    x <> [] -> NoDup idxs -> (forall c, In c idxs -> c < p) ->
    fit vzero to_cat valid x idxs = Some enc ->
    cat_cols enc = sort_nat idxs /\
    mappers enc = map (fun c => fit_to_iter (map to_cat (column vzero x c))) (sort_nat idxs) /\
    exists r, transform vzero vone to_cat enc p x = Some r /\ Forall2 (row_layout enc p) x r.
  Proof.
    intros x idxs p enc Hx Hnd Hlt Hfit. unfold fit in Hfit.
    destruct (forallb _ (sort_nat idxs)); [|discriminate]. inversion Hfit; subst enc; clear Hfit.
    cbn [cat_cols mappers]. split; [reflexivity|]. split; [reflexivity|].
    set (enc := {| mappers := map (fun c => fit_to_iter (map to_cat (column vzero x c))) (sort_nat idxs);
                   cat_cols := sort_nat idxs |}).
    unfold transform.
    apply (all_some_Forall2 (transform_row vzero vone to_cat enc p) (row_layout enc p)).
    intros xr Hxr.
    assert (Hlen : length (mappers enc) = length (cat_cols enc)) by (cbn; apply map_length).
    assert (Hs : sorted_lt 0 (cat_cols enc)) by (cbn; apply sort_nat_sorted; assumption).
    assert (Hlt' : forall c, In c (cat_cols enc) -> c < p).
    { cbn. intros c Hc. apply Hlt. apply (Permutation_in _ (sort_nat_perm idxs)). assumption. }
    assert (Hne : Forall (fun m : list nat => 1 <= length m) (mappers enc)).
    { cbn. apply Forall_forall. intros m Hm. apply in_map_iff in Hm. destruct Hm as [c [E _]]. subst m.
      apply fit_to_iter_nonempty. unfold column. destruct x; [contradiction|discriminate]. }
    assert (Hmp : forall pidx c, nth_error (cat_cols enc) pidx = Some c ->
              nth pidx (mappers enc) [] = fit_to_iter (map to_cat (column vzero x c))).
    { cbn. intros pidx c Hc.
      assert (pidx < length (sort_nat idxs)) by (apply nth_error_Some; congruence).
      rewrite (nth_map_lt _ _ _ _ 0) by assumption.
      rewrite (nth_error_nth' _ 0) in Hc by assumption. inversion Hc. reflexivity. }
    destruct (transform_row_layout vzero vone to_cat enc p Hlen Hs Hlt' Hne xr) as [row [E [H1 [H2 H3]]]].
    { intros pidx c Hc. rewrite (Hmp _ _ Hc).
      apply get_num_in. apply fit_to_iter_In. apply in_map. unfold column. apply in_map_iff.
      exists xr. split; [reflexivity|assumption]. }
    exists row. split; [assumption|]. unfold row_layout. cbn zeta. split; [assumption|]. split; assumption.
  Qed.
End Matrix.

(* ---------- error clauses ---------- *)
Section Errors.
  Context {V : Type} (vzero vone : V) (to_cat : V -> nat) (valid : V -> bool).

  Lemma fit_rejects_invalid : forall (x : list (list V)) (idxs : list nat) c xr,
    In c idxs -> In xr x -> valid (nth c xr vzero) = false -> fit vzero to_cat valid x idxs = None.
  Proof.
    intros x idxs c xr Hc Hx Hv. unfold fit.
    destruct (forallb (fun c0 => forallb valid (column vzero x c0)) (sort_nat idxs)) eqn:E; [|reflexivity].
    exfalso. rewrite forallb_forall in E.
    assert (Hc' : In c (sort_nat idxs)) by (apply (Permutation_in _ (Permutation_sym (sort_nat_perm idxs))); assumption).
    specialize (E c Hc'). rewrite forallb_forall in E.
    assert (Hin : In (nth c xr vzero) (column vzero x c)).
    { unfold column. apply in_map_iff. exists xr. split; [reflexivity|assumption]. }
    rewrite (E _ Hin) in Hv. discriminate.
  Qed.

  Lemma all_some_none {A} : forall (l : list (option A)), In None l -> all_some l = None.
  Proof.
    induction l as [|a l IH]; intro H; [destruct H|]. destruct H as [H|H].
    - subst. reflexivity.
    - cbn. destruct a; [|reflexivity]. rewrite (IH H). reflexivity.
  Qed.

  Lemma fold_none {A B} (f : option A -> B -> option A) (Hf : forall b, f None b = None) :
    forall l, fold_left f l None = None.
  Proof. induction l as [|b l IH]; cbn; [reflexivity|]. rewrite Hf. exact IH. Qed.

  Lemma transform_rejects_unseen : forall (enc : encoder) (p : nat) (x : list (list V)) xr pidx c,
    In xr x -> nth_error (cat_cols enc) pidx = Some c -> length (mappers enc) = length (cat_cols enc) ->
    ~ In (to_cat (nth c xr vzero)) (nth pidx (mappers enc) []) ->
    transform vzero vone to_cat enc p x = None.
  Proof.
    intros enc p x xr pidx c Hx Hc Hlen Hn. unfold transform. apply all_some_none.
    apply in_map_iff. exists xr. split; [|assumption].
    unfold transform_row, write_cats. rewrite (write_cats_fold vzero vone to_cat).
    assert (Hpair : In (pidx, c) (zip (seq 0 (length (cat_cols enc))) (cat_cols enc))).
    { apply zip_seq_In. rewrite Nat.sub_0_r. split; [lia|assumption]. }
    rewrite all_some_none; [reflexivity|].
    apply in_map_iff. exists (pidx, c). split; [|assumption].
    unfold cat_write, get_one_hot. cbn [fst snd].
    apply get_num_none in Hn. rewrite Hn. reflexivity.
  Qed.
End Errors.
