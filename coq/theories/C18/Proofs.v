(* C18 — proofs about the one-hot encoder model. *)
From Coq Require Import List Arith Bool Lia.
From SC Require Import C18.Model.
Import ListNotations.

(* spec: column j moves right by the extra width of the categorical columns before it *)
Fixpoint extra_before (j : nat) (cats : list (nat * nat)) : nat :=   (* (index, size) *)
  match cats with
  | [] => 0
  | (c, k) :: t => (if c <? j then k - 1 else 0) + extra_before j t
  end.

(* strictly increasing, all >= lo *)
Fixpoint sorted_lt (lo : nat) (l : list nat) : Prop :=
  match l with [] => True | v :: t => lo <= v /\ sorted_lt (S v) t end.

Lemma nth_repeat_lt {A} (x d : A) : forall n j, j < n -> nth j (repeat x n) d = x.
Proof. induction n as [|n IH]; intros j Hj; [lia|]. destruct j; cbn; [reflexivity|apply IH; lia]. Qed.

Definition flat_from (a o : nat) (idxs sizes : list nat) (p : nat) : list nat :=
  flat_map (fun ro => repeat (snd ro) (fst ro))
           (zip (scan_repeats a (idxs ++ [p])) (o :: scan_offsets o sizes)).

Lemma extra_before_zero : forall idxs sizes v x,
  sorted_lt (S v) idxs -> x <= S v -> extra_before x (zip idxs sizes) = 0.
Proof.
  induction idxs as [|w idxs IH]; intros sizes v x Hs Hx; [reflexivity|].
  destruct sizes as [|k sizes]; [reflexivity|]. cbn [zip extra_before]. destruct Hs as [Hw Hs].
  destruct (Nat.ltb_spec w x); [lia|]. rewrite (IH sizes w x); try assumption; lia.
Qed.

Lemma flat_from_nth : forall idxs sizes a o p j,
  length idxs = length sizes ->
  sorted_lt a idxs -> (forall c, In c idxs -> c < p) -> Forall (fun k => 1 <= k) sizes ->
  a <= p -> j < p + 1 - a ->
  nth j (flat_from a o idxs sizes p) 0 = o + extra_before (a + j) (zip idxs sizes).
Proof.
  induction idxs as [|v idxs IH]; intros sizes a o p j Hlen Hs Hlt Hk Hap Hj.
  - destruct sizes; [|discriminate]. unfold flat_from.
    cbn [app scan_repeats scan_offsets zip flat_map fst snd].
    rewrite app_nil_r. rewrite nth_repeat_lt by lia. cbn. lia.
  - destruct sizes as [|k sizes]; [discriminate|]. cbn [length] in Hlen.
    destruct Hs as [Hav Hs]. inversion Hk as [|? ? Hk1 Hk']; subst.
    assert (Hvp : v < p) by (apply Hlt; left; reflexivity).
    unfold flat_from. cbn [app scan_repeats scan_offsets zip flat_map fst snd].
    fold (flat_from (v + 1) (o + k - 1) idxs sizes p).
    destruct (Nat.lt_ge_cases j (v + 1 - a)) as [Hjl|Hjg].
    + rewrite app_nth1 by (rewrite repeat_length; lia).
      rewrite nth_repeat_lt by lia.
      cbn [extra_before zip].
      rewrite (extra_before_zero idxs sizes v (a + j)) by (assumption || lia).
      destruct (Nat.ltb_spec v (a + j)); lia.
    + rewrite app_nth2 by (rewrite repeat_length; lia). rewrite repeat_length.
      replace (S v) with (v + 1) in Hs by lia.
      rewrite (IH sizes (v + 1) (o + k - 1) p (j - (v + 1 - a))); try lia; try assumption.
      * cbn [extra_before zip]. destruct (Nat.ltb_spec v (a + j)); [|lia].
        replace (v + 1 + (j - (v + 1 - a))) with (a + j) by lia. lia.
      * intros c Hc. apply Hlt. right; assumption.
Qed.

Lemma flat_from_length : forall idxs sizes a o p,
  length idxs = length sizes -> sorted_lt a idxs -> (forall c, In c idxs -> c < p) -> a <= p ->
  length (flat_from a o idxs sizes p) = p + 1 - a.
Proof.
  induction idxs as [|v idxs IH]; intros sizes a o p Hlen Hs Hlt Hap.
  - destruct sizes; [|discriminate]. unfold flat_from.
    cbn [app scan_repeats scan_offsets zip flat_map fst snd].
    rewrite app_nil_r, repeat_length. reflexivity.
  - destruct sizes as [|k sizes]; [discriminate|]. cbn [length] in Hlen.
    destruct Hs as [Hav Hs].
    assert (Hvp : v < p) by (apply Hlt; left; reflexivity).
    unfold flat_from. cbn [app scan_repeats scan_offsets zip flat_map fst snd].
    fold (flat_from (v + 1) (o + k - 1) idxs sizes p).
    rewrite app_length, repeat_length.
    replace (S v) with (v + 1) in Hs by lia.
    rewrite IH; try lia; try assumption. intros c Hc. apply Hlt. right; assumption.
Qed.

Lemma zip_length {A B} : forall (l1 : list A) (l2 : list B),
  length (zip l1 l2) = Nat.min (length l1) (length l2).
Proof. induction l1 as [|a l1 IH]; intros [|b l2]; cbn; try reflexivity. rewrite IH; reflexivity. Qed.

Lemma zip_nth {A B} (da : A) (db : B) : forall (l1 : list A) (l2 : list B) j,
  j < length l1 -> j < length l2 -> nth j (zip l1 l2) (da, db) = (nth j l1 da, nth j l2 db).
Proof.
  induction l1 as [|a l1 IH]; intros [|b l2] j H1 H2; cbn in *; try lia.
  destruct j; [reflexivity|]. apply IH; lia.
Qed.

Lemma nth_map_lt {A B} (f : A -> B) : forall l j d d', j < length l -> nth j (map f l) d = f (nth j l d').
Proof. induction l as [|a l IH]; intros j d d' H; cbn in *; [lia|]. destruct j; [reflexivity|]. apply IH; lia. Qed.

Lemma find_new_idxs_flat p sizes idxs :
  find_new_idxs p sizes idxs =
  map (fun io => fst io + snd io) (zip (seq 0 p) (flat_from 0 0 idxs sizes p)).
Proof. reflexivity. Qed.

(* The index formula: for strictly increasing categorical indices (what `fit` stores after
   sorting a duplicate-free list) column j moves to j + sum_{c < j categorical} (k_c - 1). *)
Lemma find_new_idxs_length : forall p sizes idxs,
  length idxs = length sizes -> sorted_lt 0 idxs -> (forall c, In c idxs -> c < p) ->
  length (find_new_idxs p sizes idxs) = p.
Proof.
  intros p sizes idxs Hl Hs Hlt. rewrite find_new_idxs_flat, map_length, zip_length, seq_length.
  rewrite flat_from_length by (assumption || lia). lia.
Qed.

Lemma find_new_idxs_nth : forall p sizes idxs j,
  length idxs = length sizes -> sorted_lt 0 idxs -> (forall c, In c idxs -> c < p) ->
  Forall (fun k => 1 <= k) sizes -> j < p ->
  nth j (find_new_idxs p sizes idxs) 0 = j + extra_before j (zip idxs sizes).
Proof.
  intros p sizes idxs j Hl Hs Hlt Hk Hj. rewrite find_new_idxs_flat.
  assert (Hfl : length (flat_from 0 0 idxs sizes p) = p + 1 - 0) by (apply flat_from_length; assumption || lia).
  rewrite (nth_map_lt _ _ _ _ (0, 0)) by (rewrite zip_length, seq_length, Hfl; lia).
  rewrite (zip_nth 0 0) by (rewrite ?seq_length, ?Hfl; lia).
  rewrite seq_nth by lia. cbn [fst snd].
  rewrite flat_from_nth by (assumption || lia). rewrite !Nat.add_0_l. reflexivity.
Qed.

(* new indices are strictly increasing: plain columns keep their relative order and
   a categorical column's block [new c, new c + k_c) ends before the next column starts *)
Lemma extra_before_step : forall cats j,
  extra_before j cats <= extra_before (S j) cats.
Proof.
  induction cats as [|[c k] t IH]; intro j; cbn [extra_before]; [lia|].
  specialize (IH j). destruct (Nat.ltb_spec c j), (Nat.ltb_spec c (S j)); lia.
Qed.

Lemma extra_before_block : forall idxs sizes lo c k,
  sorted_lt lo idxs -> length idxs = length sizes -> In (c, k) (zip idxs sizes) ->
  extra_before (S c) (zip idxs sizes) = extra_before c (zip idxs sizes) + (k - 1).
Proof.
  induction idxs as [|v idxs IH]; intros sizes lo c k Hs Hl Hin; [destruct Hin|].
  destruct sizes as [|s sizes]; [discriminate|]. cbn [zip] in *. destruct Hs as [Hlo Hs].
  cbn [length] in Hl. cbn [extra_before]. destruct Hin as [E|Hin].
  - inversion E; subst v s.
    rewrite (extra_before_zero idxs sizes c (S c)) by (assumption || lia).
    rewrite (extra_before_zero idxs sizes c c) by (assumption || lia).
    destruct (Nat.ltb_spec c (S c)); [|lia]. destruct (Nat.ltb_spec c c); lia.
  - assert (Hvc : v < c).
    { clear - Hs Hin. revert sizes v Hs Hin. induction idxs as [|w idxs IH2]; intros sizes v Hs Hin;
      [destruct Hin|]. destruct sizes; [destruct Hin|]. destruct Hs as [Hw Hs]. destruct Hin as [E|Hin].
      - inversion E; subst. lia.
      - specialize (IH2 _ _ Hs Hin). lia. }
    rewrite (IH sizes (S v) c k) by (assumption || lia).
    destruct (Nat.ltb_spec v (S c)), (Nat.ltb_spec v c); lia.
Qed.

(* ---------- CategoryMapper laws ---------- *)
Lemma get_num_lt : forall cats c i, get_num cats c = Some i -> i < length cats /\ nth_error cats i = Some c.
Proof.
  induction cats as [|x t IH]; intros c i H; [discriminate|]. cbn in H.
  destruct (Nat.eqb_spec x c).
  - inversion H; subst. cbn. split; [lia|reflexivity].
  - destruct (get_num t c) as [i'|] eqn:E; [|discriminate]. inversion H; subst.
    destruct (IH _ _ E) as [H1 H2]. cbn. split; [lia|assumption].
Qed.

Lemma get_num_in : forall cats c, In c cats -> exists i, get_num cats c = Some i.
Proof.
  induction cats as [|x t IH]; intros c H; [destruct H|]. cbn.
  destruct (Nat.eqb_spec x c); [eexists; reflexivity|].
  destruct H as [H|H]; [congruence|]. destruct (IH _ H) as [i E]. rewrite E. eexists; reflexivity.
Qed.

Lemma get_num_none : forall cats c, get_num cats c = None <-> ~ In c cats.
Proof.
  intros cats c. split.
  - intros E H. destruct (get_num_in _ _ H) as [i E']. congruence.
  - intro H. destruct (get_num cats c) as [i|] eqn:E; [|reflexivity].
    exfalso. apply H. apply get_num_lt in E. destruct E as [_ E]. eapply nth_error_In; eassumption.
Qed.

(* first occurrence: nothing before position i equals c *)
Lemma get_num_first : forall cats c i, get_num cats c = Some i ->
  forall j, j < i -> nth_error cats j <> Some c.
Proof.
  induction cats as [|x t IH]; intros c i H j Hj; [discriminate|]. cbn in H.
  destruct (Nat.eqb_spec x c); [inversion H; lia|].
  destruct (get_num t c) as [i'|] eqn:E; [|discriminate]. inversion H; subst.
  destruct j; cbn; [congruence|]. eapply IH; [eassumption|lia].
Qed.

(* fit_to_iter: duplicate-free, same support, order of first appearance *)
Lemma mem_nat_In c l : mem_nat c l = true <-> In c l.
Proof.
  unfold mem_nat. rewrite existsb_exists. split.
  - intros [x [H E]]. apply Nat.eqb_eq in E. subst; assumption.
  - intro H. exists c. split; [assumption|apply Nat.eqb_refl].
Qed.

Lemma fit_fold_spec : forall l acc,
  NoDup acc ->
  let r := fold_left (fun acc c => if mem_nat c acc then acc else acc ++ [c]) l acc in
  NoDup r /\ (forall c, In c r <-> In c acc \/ In c l) /\ (exists suf, r = acc ++ suf).
Proof.
  induction l as [|x l IH]; intros acc Hnd; cbn [fold_left].
  - split; [assumption|]. split; [intro c; cbn; tauto|]. exists []. rewrite app_nil_r. reflexivity.
  - destruct (mem_nat x acc) eqn:E.
    + destruct (IH acc Hnd) as [H1 [H2 H3]]. split; [assumption|]. split; [|assumption].
      intro c. rewrite H2. cbn. apply mem_nat_In in E. split; [tauto|].
      intros [H|[H|H]]; subst; tauto.
    + assert (Hnd' : NoDup (acc ++ [x])).
      { assert (Hx : ~ In x acc) by (rewrite <- mem_nat_In; congruence).
        clear - Hnd Hx. induction acc as [|a acc IHa]; cbn.
        - constructor; [intros []|constructor].
        - inversion Hnd; subst. constructor.
          + rewrite in_app_iff. cbn. intros [H|[H|[]]]; [tauto|]. subst. apply Hx. left; reflexivity.
          + apply IHa; [assumption|]. intro; apply Hx; right; assumption. }
      destruct (IH (acc ++ [x]) Hnd') as [H1 [H2 H3]]. split; [assumption|]. split.
      * intro c. rewrite H2, in_app_iff. cbn. tauto.
      * destruct H3 as [suf H3]. exists (x :: suf). rewrite H3, <- app_assoc. reflexivity.
Qed.

Lemma fit_to_iter_NoDup l : NoDup (fit_to_iter l).
Proof. apply (fit_fold_spec l []). constructor. Qed.

Lemma fit_to_iter_In l c : In c (fit_to_iter l) <-> In c l.
Proof. destruct (fit_fold_spec l [] (NoDup_nil _)) as [_ [H _]]. rewrite (H c). cbn. tauto. Qed.

(* the mapper's maps are mutually inverse *)
Lemma get_cat_get_num : forall cats c i, get_num cats c = Some i -> get_cat cats i = Some c.
Proof. intros cats c i H. apply get_num_lt in H. apply H. Qed.

Lemma get_num_get_cat : forall cats c i, NoDup cats -> get_cat cats i = Some c -> get_num cats c = Some i.
Proof.
  induction cats as [|x t IH]; intros c i Hnd H; [destruct i; discriminate|].
  inversion Hnd as [|? ? Hx Hnd']; subst. destruct i; cbn in H.
  - inversion H; subst. cbn. rewrite Nat.eqb_refl. reflexivity.
  - cbn. destruct (Nat.eqb_spec x c).
    + subst. exfalso. apply Hx. eapply nth_error_In; eassumption.
    + rewrite (IH c i Hnd' H). reflexivity.
Qed.

Lemma zip_In_l {A B} : forall (l1 : list A) (l2 : list B) a b, In (a, b) (zip l1 l2) -> In a l1.
Proof.
  induction l1 as [|x l1 IH]; intros [|y l2] a b H; cbn in *; try tauto.
  destruct H as [E|H]; [inversion E; left; reflexivity|right; eapply IH; eassumption].
Qed.

Lemma zip_In_size : forall (idxs sizes : list nat) (c k : nat), Forall (fun k => 1 <= k) sizes -> In (c, k) (zip idxs sizes) -> 1 <= k.
Proof.
  induction idxs as [|x l1 IH]; intros [|y l2] c k HF H; cbn in *; try tauto.
  inversion HF; subst. destruct H as [E|H]; [inversion E; subst; assumption|eapply IH; eassumption].
Qed.

Lemma new_idx_block_width : forall p sizes idxs c k,
  length idxs = length sizes -> sorted_lt 0 idxs -> (forall c, In c idxs -> c < p) ->
  Forall (fun k => 1 <= k) sizes -> In (c, k) (zip idxs sizes) -> S c < p ->
  nth (S c) (find_new_idxs p sizes idxs) 0 = nth c (find_new_idxs p sizes idxs) 0 + k.
Proof.
  intros p sizes idxs c k Hl Hs Hlt Hk Hin Hc.
  rewrite !find_new_idxs_nth by (assumption || lia).
  rewrite (extra_before_block idxs sizes 0 c k) by assumption.
  pose proof (zip_In_size _ _ _ _ Hk Hin). lia.
Qed.

Lemma mapper_laws : forall series,
  let cats := fit_to_iter series in
  NoDup cats /\
  (forall c, In c cats <-> In c series) /\
  (forall c i, get_num cats c = Some i -> get_cat cats i = Some c) /\
  (forall c i, get_cat cats i = Some c -> get_num cats c = Some i) /\
  (forall c, get_num cats c = None <-> ~ In c series).
Proof.
  intros series cats. split; [apply fit_to_iter_NoDup|]. split; [apply fit_to_iter_In|].
  split; [apply get_cat_get_num|]. split.
  - intros c i. apply get_num_get_cat. apply fit_to_iter_NoDup.
  - intro c. rewrite get_num_none. unfold cats. rewrite fit_to_iter_In. tauto.
Qed.
