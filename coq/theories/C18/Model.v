(* C18 — executable model of smartcore's one-hot encoder
   (src/preprocessing/categorical.rs, series_encoder.rs, data_traits.rs).
   Definitions only; proofs are in Proofs.v so that the model still runs when a proof breaks.

   Transliteration notes
   - matrices are lists of rows (the encoder only uses `shape`, `get`, `set`, `zeros`,
     `copy_col_as_vec` of the Matrix trait; storage order is C03's business);
   - a category is the `u16` obtained by the saturating cast `to_category`; it is a `nat` here,
     the cast itself is the section variable `to_cat` (instantiated in Corr.v by the exact
     truncation of a binary64 value);
   - `HashMap<C, usize>` + `Vec<C>` of CategoryMapper is the list of categories in order of first
     appearance (`get_num` = position in that list);
   - `Err(..)` is `None`. *)
From Coq Require Import List Arith Bool.
Import ListNotations.

(* ---------- find_new_idxs : the iterator pipeline as list functions ---------- *)
Fixpoint scan_repeats (a : nat) (l : list nat) : list nat :=
  match l with [] => [] | v :: t => (v + 1 - a) :: scan_repeats (v + 1) t end.
Fixpoint scan_offsets (a : nat) (l : list nat) : list nat :=
  match l with [] => [] | v :: t => (a + v - 1) :: scan_offsets (a + v - 1) t end.
Fixpoint zip {A B} (l1 : list A) (l2 : list B) : list (A * B) :=
  match l1, l2 with a :: t1, b :: t2 => (a, b) :: zip t1 t2 | _, _ => [] end.
Definition find_new_idxs (num_params : nat) (cat_sizes cat_idxs : list nat) : list nat :=
  let cat_idx := cat_idxs ++ [num_params] in
  let repeats := scan_repeats 0 cat_idx in
  let offset := 0 :: scan_offsets 0 cat_sizes in
  let flat := flat_map (fun ro => repeat (snd ro) (fst ro)) (zip repeats offset) in
  map (fun io => fst io + snd io) (zip (seq 0 num_params) flat).

(* ---------- CategoryMapper ---------- *)
Definition mem_nat (c : nat) (l : list nat) : bool := existsb (Nat.eqb c) l.
Definition fit_to_iter (l : list nat) : list nat :=
  fold_left (fun acc c => if mem_nat c acc then acc else acc ++ [c]) l [].
Fixpoint get_num (cats : list nat) (c : nat) : option nat :=
  match cats with
  | [] => None
  | x :: t => if Nat.eqb x c then Some 0 else option_map S (get_num t c)
  end.
Definition get_cat (cats : list nat) (i : nat) : option nat := nth_error cats i.  (* Rust panics out of range *)

(* idxs.sort_unstable() *)
Fixpoint insert_sorted (x : nat) (l : list nat) : list nat :=
  match l with
  | [] => [x]
  | y :: t => if x <=? y then x :: l else y :: insert_sorted x t
  end.
Definition sort_nat (l : list nat) : list nat := fold_right insert_sorted [] l.

Section Encoder.
  Context {V : Type} (vzero vone : V) (to_cat : V -> nat) (valid : V -> bool) (is_one : V -> bool).

  Definition make_one_hot (idx k : nat) : list V :=
    map (fun t => if Nat.eqb t idx then vone else vzero) (seq 0 k).
  Definition get_one_hot (cats : list nat) (c : nat) : option (list V) :=
    option_map (fun i => make_one_hot i (length cats)) (get_num cats c).
  Definition invert_one_hot (cats : list nat) (v : list V) : option nat :=
    match filter (fun iv => is_one (snd iv)) (zip (seq 0 (length v)) v) with
    | [(i, _)] => get_cat cats i
    | _ => None
    end.

  Definition matrix := list (list V).
  Definition mget (x : matrix) (r c : nat) : V := nth c (nth r x []) vzero.
  Definition column (x : matrix) (c : nat) : list V := map (fun row => nth c row vzero) x.

  Record encoder := { mappers : list (list nat); cat_cols : list nat }.

  Definition fit (x : matrix) (idxs : list nat) : option encoder :=
    let idxs := sort_nat idxs in
    if forallb (fun c => forallb valid (column x c)) idxs
    then Some {| mappers := map (fun c => fit_to_iter (map to_cat (column x c))) idxs;
                 cat_cols := idxs |}
    else None.

  Definition set_nth (l : list V) (i : nat) (v : V) : list V :=
    if i <? length l then firstn i l ++ v :: skipn (S i) l else l.   (* Rust panics out of range *)
  Definition write_block (row : list V) (start : nat) (blk : list V) : list V :=
    fold_left (fun acc ov => set_nth acc (start + fst ov) (snd ov)) (zip (seq 0 (length blk)) blk) row.

  (* the loop over categorical columns, for one row *)
  Definition write_cats (enc : encoder) (new_idx : list nat) (xr : list V) (row0 : list V)
    : option (list V) :=
    fold_left
      (fun acc pc =>
         match acc with
         | None => None
         | Some row =>
           let '(pidx, old_c) := pc in
           match get_one_hot (nth pidx (mappers enc) []) (to_cat (nth old_c xr vzero)) with
           | None => None
           | Some oh => Some (write_block row (nth old_c new_idx 0) oh)
           end
         end)
      (zip (seq 0 (length (cat_cols enc))) (cat_cols enc)) (Some row0).

  (* the copy loop over plain columns with its `cur_skip` pointer, for one row *)
  Fixpoint write_plain (skip : list nat) (cols : list (nat * nat)) (xr : list V) (row : list V)
    : list V :=
    match cols with
    | [] => row
    | (old_p, new_p) :: t =>
      match skip with
      | v :: skip' =>
        if Nat.eqb v old_p then write_plain skip' t xr row
        else write_plain skip t xr (set_nth row new_p (nth old_p xr vzero))
      | [] => write_plain skip t xr (set_nth row new_p (nth old_p xr vzero))
      end
    end.

  Definition expanded_width (p : nat) (sizes : list nat) : nat :=
    p + fold_left (fun cs v => cs + v - 1) sizes 0.

  Definition transform_row (enc : encoder) (p : nat) (xr : list V) : option (list V) :=
    let sizes := map (@length nat) (mappers enc) in
    let new_idx := find_new_idxs p sizes (cat_cols enc) in
    match write_cats enc new_idx xr (repeat vzero (expanded_width p sizes)) with
    | None => None
    | Some row => Some (write_plain (cat_cols enc) (zip (seq 0 p) new_idx) xr row)
    end.

  Fixpoint all_some {A} (l : list (option A)) : option (list A) :=
    match l with
    | [] => Some []
    | None :: _ => None
    | Some a :: t => option_map (cons a) (all_some t)
    end.

  Definition transform (enc : encoder) (p : nat) (x : matrix) : option matrix :=
    all_some (map (transform_row enc p) x).
End Encoder.
