(* C11 — per-class feature statistics: rows of a class, Gaussian moments, multinomial
   smoothed frequencies (exact arithmetic, ROps). *)
From Coq Require Import List ZArith Bool Arith Lia Reals Lra.
From SC Require Import Base.Num C11.Model C11.ProofsLabels C11.ProofsCounts.
Import ListNotations.

(* the rows of x whose label is c, in their original order *)
Definition class_rows {A} (x : list (list A)) (y : list Z) (c : Z) : list (list A) :=
  map fst (filter (fun ry => Z.eqb c (snd ry)) (zip x y)).
Definition col {A} (d : A) (j : nat) (rows : list (list A)) : list A := map (fun row => nth j row d) rows.

Lemma zip_map_r {A B C} (f : B -> C) (l1 : list A) (l2 : list B) :
  zip l1 (map f l2) = map (fun ab => (fst ab, f (snd ab))) (zip l1 l2).
Proof.
  revert l2. induction l1 as [|a t IH]; intros [|b u]; cbn; auto. rewrite IH. reflexivity.
Qed.
Lemma filter_map_comm {X Y} (f : X -> Y) (p : Y -> bool) (l : list X) :
  filter p (map f l) = map f (filter (fun x => p (f x)) l).
Proof. induction l as [|x t IH]; cbn; [reflexivity|]. destruct (p (f x)); cbn; rewrite IH; reflexivity. Qed.
Lemma in_zip_r {A B} (l1 : list A) (l2 : list B) ab : In ab (zip l1 l2) -> In (snd ab) l2.
Proof.
  revert l2. induction l1 as [|a t IH]; intros [|b u]; cbn; try tauto.
  intros [<-|H]; [left; reflexivity | right; apply IH; exact H].
Qed.
Lemma zip_length {A B} (l1 : list A) (l2 : list B) :
  length l1 = length l2 -> length (zip l1 l2) = length l1.
Proof. revert l2. induction l1 as [|a t IH]; intros [|b u] H; cbn in *; try lia. rewrite IH; lia. Qed.

(* rows selected by class index = rows selected by label *)
Lemma rows_by_index {A} (x : list (list A)) (y : list Z) k :
  let classes := fst (unique_with_indices y) in
  let indices := snd (unique_with_indices y) in
  k < length classes ->
  map fst (filter (fun ri => Nat.eqb (snd ri) k) (zip x indices)) = class_rows x y (nth k classes 0%Z).
Proof.
  intros classes indices Hk. subst indices. cbn [snd unique_with_indices].
  rewrite zip_map_r, filter_map_comm, map_map. cbn [fst snd]. unfold class_rows.
  f_equal. apply filter_ext_in. intros ry Hry. cbn [snd].
  apply (index_filter_labels y k Hk). apply (in_zip_r x y ry Hry).
Qed.

Lemma class_rows_length {A} (x : list (list A)) (y : list Z) c :
  length x = length y -> length (class_rows x y c) = count_label y c.
Proof.
  unfold class_rows, count_label. rewrite map_length. revert y.
  induction x as [|r t IH]; intros [|l u] H; cbn in *; try lia.
  destruct (Z.eqb c l); cbn; rewrite IH by lia; reflexivity.
Qed.

Lemma split_rows_length {A} K (x : list (list A)) idx : length (split_rows K x idx) = K.
Proof.
  unfold split_rows.
  rewrite (fold_upd_length (fun ri : list A * nat => snd ri) (fun ri rows => rows ++ [fst ri])).
  apply repeat_length.
Qed.

Lemma split_rows_nth {A} K (x : list (list A)) idx k : k < K ->
  nth k (split_rows K x idx) [] = map fst (filter (fun ri => Nat.eqb (snd ri) k) (zip x idx)).
Proof.
  intros Hk. unfold split_rows.
  rewrite (nth_fold_upd (fun ri : list A * nat => snd ri) (fun ri rows => rows ++ [fst ri]))
    by (rewrite repeat_length; exact Hk).
  rewrite (fold_collect (fun ri : list A * nat => Nat.eqb (snd ri) k) fst).
  rewrite nth_repeat_lt by exact Hk. reflexivity.
Qed.

(* ---------- count_features ---------- *)
Lemma vadd_length cnt row : length (vadd cnt row) = length cnt.
Proof. revert row. induction cnt as [|c t IH]; intros [|r u]; cbn; auto. Qed.
Lemma nth_vadd cnt row j : j < length cnt -> nth j (vadd cnt row) 0 = nth j cnt 0 + nth j row 0.
Proof.
  revert row j. induction cnt as [|c t IH]; intros [|r u] [|j] H; cbn in *; try lia.
  apply IH. lia.
Qed.

Lemma fold_vadd {X} (c : X -> bool) (v : X -> list nat) (l : list X) j : forall a0,
  j < length a0 ->
  nth j (fold_left (fun a x => if c x then vadd a (v x) else a) l a0) 0
  = nth j a0 0 + list_sum (map (fun x => nth j (v x) 0) (filter c l)).
Proof.
  induction l as [|x t IH]; intros a0 Hj; cbn [fold_left filter]; [cbn; lia|].
  destruct (c x).
  - rewrite IH by (rewrite vadd_length; exact Hj). rewrite nth_vadd by exact Hj.
    change (list_sum (map (fun x0 => nth j (v x0) 0) (x :: filter c t)))
      with (nth j (v x) 0 + list_sum (map (fun x0 => nth j (v x0) 0) (filter c t))). lia.
  - apply IH. exact Hj.
Qed.

Lemma fold_vadd_length {X} (c : X -> bool) (v : X -> list nat) (l : list X) : forall a0,
  length (fold_left (fun a x => if c x then vadd a (v x) else a) l a0) = length a0.
Proof.
  induction l as [|x t IH]; intros a0; cbn [fold_left]; [reflexivity|].
  rewrite IH. destruct (c x); [apply vadd_length | reflexivity].
Qed.

Lemma count_features_length K p xc idx : length (count_features K p xc idx) = K.
Proof.
  unfold count_features.
  rewrite (fold_upd_length (fun ri : list nat * nat => snd ri) (fun ri cnt => vadd cnt (fst ri))).
  apply repeat_length.
Qed.

Lemma count_features_row K p xc idx k : k < K ->
  nth k (count_features K p xc idx) []
  = fold_left (fun a ri => if Nat.eqb (snd ri) k then vadd a (fst ri) else a) (zip xc idx) (repeat 0 p).
Proof.
  intros Hk. unfold count_features.
  rewrite (nth_fold_upd (fun ri : list nat * nat => snd ri) (fun ri cnt => vadd cnt (fst ri)))
    by (rewrite repeat_length; exact Hk).
  rewrite nth_repeat_lt by exact Hk. reflexivity.
Qed.

Lemma count_features_row_length K p xc idx k : k < K ->
  length (nth k (count_features K p xc idx) []) = p.
Proof.
  intros Hk. rewrite count_features_row by exact Hk.
  rewrite (fold_vadd_length (fun ri : list nat * nat => Nat.eqb (snd ri) k) fst). apply repeat_length.
Qed.

Lemma count_features_nth K p xc idx k j : k < K -> j < p ->
  nth j (nth k (count_features K p xc idx) []) 0
  = list_sum (col 0 j (map fst (filter (fun ri => Nat.eqb (snd ri) k) (zip xc idx)))).
Proof.
  intros Hk Hj. rewrite count_features_row by exact Hk.
  rewrite (fold_vadd (fun ri : list nat * nat => Nat.eqb (snd ri) k) fst)
    by (rewrite repeat_length; exact Hj).
  rewrite nth_repeat_lt by exact Hj. unfold col. rewrite map_map. reflexivity.
Qed.

Lemma sum_nat_list_sum l : sum_nat l = list_sum l.
Proof.
  unfold sum_nat. assert (H : forall a, fold_left Nat.add l a = a + list_sum l).
  { induction l as [|x t IH]; intros a; cbn [fold_left]; [cbn; lia|].
    rewrite IH. change (list_sum (x :: t)) with (x + list_sum t). lia. }
  apply H.
Qed.

(* ---------- real sums ---------- *)
Local Open Scope R_scope.

Definition mean (l : list R) : R := Rsum l / INR (length l).
(* population variance: mean squared deviation from the mean *)
Definition variance (l : list R) : R :=
  Rsum (map (fun v => (v - mean l) * (v - mean l)) l) / INR (length l).

Lemma Rsum_cons a l : Rsum (a :: l) = a + Rsum l.
Proof. reflexivity. Qed.

Lemma fold_left_Rplus {X} (f : X -> R) (l : list X) : forall a,
  fold_left (fun s x => s + f x) l a = a + Rsum (map f l).
Proof.
  induction l as [|x t IH]; intros a; cbn [fold_left map]; [cbn; ring|].
  rewrite IH, Rsum_cons. ring.
Qed.

Lemma fold_left_moments {X} (f : X -> R) (l : list X) : forall a b,
  fold_left (fun (ms : R * R) x => (fst ms + f x, snd ms + f x * f x)) l (a, b)
  = (a + Rsum (map f l), b + Rsum (map (fun x => f x * f x) l)).
Proof.
  induction l as [|x t IH]; intros a b; cbn [fold_left map].
  - cbn. f_equal; ring.
  - cbn [fst snd]. rewrite IH, !Rsum_cons. f_equal; ring.
Qed.

Lemma Rsum_sq_dev (l : list R) (m : R) :
  Rsum (map (fun v => (v - m) * (v - m)) l)
  = Rsum (map (fun v => v * v) l) - 2 * m * Rsum l + INR (length l) * m * m.
Proof.
  induction l as [|v t IH].
  - cbn. ring.
  - cbn [map]. rewrite !Rsum_cons, IH. change (length (v :: t)) with (S (length t)).
    rewrite S_INR. ring.
Qed.

Lemma variance_one_pass (l : list R) : l <> [] ->
  Rsum (map (fun v => v * v) l) / INR (length l) - (Rsum l / INR (length l)) * (Rsum l / INR (length l))
  = variance l.
Proof.
  intros Hne. unfold variance. rewrite Rsum_sq_dev. unfold mean.
  assert (Hn : INR (length l) <> 0).
  { apply not_0_INR. destruct l; [congruence | cbn; lia]. }
  field. exact Hn.
Qed.

Lemma col_mean_R (data : list (list R)) j : col_mean ROps data j = mean (col 0 j data).
Proof.
  unfold col_mean, mean, col. cbn [oadd odiv o0 ROps]. rewrite oofnat_R.
  rewrite (fold_left_Rplus (fun row => nth j row 0)), map_length. f_equal. ring.
Qed.

Lemma col_var_R (data : list (list R)) j : data <> [] ->
  col_var ROps data j = variance (col 0 j data).
Proof.
  intros Hne. unfold col_var. cbn [oadd odiv osub omul o0 ROps]. rewrite oofnat_R.
  rewrite (fold_left_moments (fun row => nth j row 0)). cbn [fst snd].
  rewrite <- variance_one_pass.
  - unfold col. rewrite map_length, map_map, !Rplus_0_l. reflexivity.
  - unfold col. destruct data; [congruence | cbn; congruence].
Qed.

(* ---------- Gaussian fit ---------- *)
Lemma gaussian_fit_inv x y user m :
  gaussian_fit ROps x y user = Some m ->
  let classes := fst (unique_with_indices y) in
  let indices := snd (unique_with_indices y) in
  let K := length classes in
  shape_ok x y = true /\
  m.(g_classes) = classes /\
  m.(g_count) = count_classes K indices /\
  class_priors ROps user (count_classes K indices) (length x) = Some m.(g_priors) /\
  m.(g_theta) = map (fun data => map (col_mean ROps data) (seq 0 (ncols x))) (split_rows K x indices) /\
  m.(g_var) = map (fun data => map (col_var ROps data) (seq 0 (ncols x))) (split_rows K x indices).
Proof.
  unfold gaussian_fit. destruct (shape_ok x y) eqn:Hs; [|discriminate].
  destruct (unique_with_indices y) as [classes indices] eqn:Hu. cbn [fst snd].
  destruct (class_priors ROps user (count_classes (length classes) indices) (length x)) as [pri|] eqn:Hp;
    [|discriminate].
  intros [= <-]. cbn. repeat split; auto.
Qed.

Lemma shape_ok_inv {A} (x : list (list A)) y : shape_ok x y = true -> length x = length y /\ (0 < length x)%nat.
Proof.
  unfold shape_ok. intros H. apply andb_prop in H. destruct H as [H1 H2].
  apply Nat.eqb_eq in H1. apply negb_true_iff, Nat.eqb_neq in H2. lia.
Qed.

Lemma gaussian_moments_spec x y user m :
  gaussian_fit ROps x y user = Some m ->
  forall k j, (k < length m.(g_classes))%nat -> (j < ncols x)%nat ->
  let rows := class_rows x y (nth k m.(g_classes) 0%Z) in
  rows <> [] /\
  nth j (nth k m.(g_theta) []) 0 = mean (col 0 j rows) /\
  nth j (nth k m.(g_var) []) 0 = variance (col 0 j rows).
Proof.
  intros Hfit k j Hk Hj.
  destruct (gaussian_fit_inv x y user m Hfit) as (Hs & Hc & _ & _ & Hth & Hv).
  destruct (shape_ok_inv x y Hs) as [Hlen Hpos].
  rewrite Hc in *. cbn zeta.
  set (classes := fst (unique_with_indices y)) in *.
  set (indices := snd (unique_with_indices y)) in *.
  assert (Hrows : nth k (split_rows (length classes) x indices) [] = class_rows x y (nth k classes 0%Z)).
  { rewrite split_rows_nth by exact Hk. apply rows_by_index. exact Hk. }
  assert (Hne : class_rows x y (nth k classes 0%Z) <> []).
  { intros E. apply (f_equal (@length _)) in E. rewrite class_rows_length in E by exact Hlen.
    assert (Hin : In (nth k classes 0%Z) y) by (apply unique_classes_in, nth_In; exact Hk).
    pose proof (count_label_pos y _ Hin) as Hpos'. rewrite E in Hpos'. cbn in Hpos'. lia. }
  split; [exact Hne|].
  rewrite Hth, Hv.
  rewrite !(nth_map_lt _ _ k _ []) by (rewrite split_rows_length; exact Hk).
  rewrite !(nth_map_lt _ _ j _ 0%nat) by (rewrite seq_length; exact Hj).
  rewrite seq_nth by exact Hj. cbn [plus]. rewrite Hrows.
  split; [apply col_mean_R | apply col_var_R; exact Hne].
Qed.

(* ---------- multinomial fit ---------- *)
Section Counts.
  Variable to_usize : R -> option nat.

  Lemma multinomial_fit_inv x y alpha user m :
    multinomial_fit ROps to_usize x y alpha user = Some m ->
    let classes := fst (unique_with_indices y) in
    let indices := snd (unique_with_indices y) in
    let K := length classes in
    exists xc,
      shape_ok x y = true /\ alpha_ok ROps alpha = true /\ convert to_usize x = Some xc /\
      m.(c_classes) = classes /\
      m.(c_count) = count_classes K indices /\
      class_priors ROps user (count_classes K indices) (length x) = Some m.(c_priors) /\
      m.(c_fcount) = count_features K (ncols x) xc indices /\
      m.(c_flp) = map (fun cnts => map (fun c => smoothed_log ROps alpha c (sum_nat cnts) (ncols x)) cnts)
                      (count_features K (ncols x) xc indices).
  Proof.
    unfold multinomial_fit. destruct (shape_ok x y) eqn:Hs; [|discriminate].
    destruct (alpha_ok ROps alpha) eqn:Ha; [|discriminate]. cbn [andb].
    destruct (unique_with_indices y) as [classes indices] eqn:Hu. cbn [fst snd].
    destruct (class_priors ROps user (count_classes (length classes) indices) (length x)) as [pri|] eqn:Hp;
      [|discriminate].
    destruct (convert to_usize x) as [xc|] eqn:Hx; [|discriminate].
    intros [= <-]. exists xc. cbn. repeat split; auto.
  Qed.

  Lemma alpha_ok_R alpha : alpha_ok ROps alpha = true -> 0 <= alpha.
  Proof.
    unfold alpha_ok. cbn [oltb o0 ROps]. intros H. apply negb_true_iff, Rltb_false in H. exact H.
  Qed.

  Lemma smoothed_log_R alpha c n p :
    smoothed_log ROps alpha c n p = ln ((INR c + alpha) / (INR n + alpha * INR p)).
  Proof. unfold smoothed_log. cbn [oln odiv oadd omul ROps]. rewrite !oofnat_R. reflexivity. Qed.

  Lemma Rsum_smoothed (cnts : list nat) (alpha D : R) :
    Rsum (map (fun c => (INR c + alpha) / D) cnts)
    = (INR (list_sum cnts) + alpha * INR (length cnts)) / D.
  Proof.
    induction cnts as [|c t IH].
    - cbn. unfold Rdiv. ring.
    - cbn [map]. rewrite Rsum_cons, IH. change (list_sum (c :: t)) with (c + list_sum t)%nat.
      change (length (c :: t)) with (S (length t)). rewrite plus_INR, S_INR. unfold Rdiv. ring.
  Qed.

  Lemma multinomial_probs_spec x y alpha user m :
    multinomial_fit ROps to_usize x y alpha user = Some m -> 0 < alpha -> (0 < ncols x)%nat ->
    exists xc, convert to_usize x = Some xc /\
    forall k, (k < length m.(c_classes))%nat ->
      let cnts := nth k m.(c_fcount) [] in
      let N_k := list_sum cnts in
      length cnts = ncols x /\
      (forall j, (j < ncols x)%nat ->
         nth j cnts 0%nat = list_sum (col 0%nat j (class_rows xc y (nth k m.(c_classes) 0%Z))) /\
         exp (nth j (nth k m.(c_flp) []) 0)
         = (INR (nth j cnts 0%nat) + alpha) / (INR N_k + alpha * INR (ncols x))) /\
      Rsum (map exp (nth k m.(c_flp) [])) = 1.
  Proof.
    intros Hfit Hal Hp.
    destruct (multinomial_fit_inv x y alpha user m Hfit) as (xc & Hs & _ & Hx & Hc & _ & _ & Hfc & Hflp).
    exists xc. split; [exact Hx|]. intros k Hk. rewrite Hc in *. cbn zeta.
    set (classes := fst (unique_with_indices y)) in *.
    set (indices := snd (unique_with_indices y)) in *.
    set (p := ncols x) in *.
    rewrite Hfc, Hflp.
    set (fc := count_features (length classes) p xc indices).
    assert (Hlen : length (nth k fc []) = p) by (apply count_features_row_length; exact Hk).
    assert (Hrow : nth k (map (fun cnts => map (fun c => smoothed_log ROps alpha c (sum_nat cnts) p) cnts) fc) []
                   = map (fun c => smoothed_log ROps alpha c (sum_nat (nth k fc [])) p) (nth k fc [])).
    { rewrite (nth_map_lt _ _ k _ []) by (unfold fc; rewrite count_features_length; exact Hk). reflexivity. }
    rewrite Hrow. rewrite sum_nat_list_sum.
    set (cnts := nth k fc []) in *.
    assert (HD : 0 < INR (list_sum cnts) + alpha * INR p).
    { pose proof (pos_INR (list_sum cnts)). assert (0 < INR p) by (apply lt_0_INR; exact Hp). nra. }
    split; [exact Hlen|]. split.
    - intros j Hj. split.
      + unfold cnts, fc. rewrite count_features_nth by assumption. f_equal. f_equal.
        apply rows_by_index. exact Hk.
      + rewrite (nth_map_lt _ _ j _ 0%nat) by (rewrite Hlen; exact Hj).
        rewrite smoothed_log_R. apply exp_ln.
        apply Rdiv_lt_0_compat; [pose proof (pos_INR (nth j cnts 0%nat)); lra | exact HD].
    - rewrite map_map.
      rewrite (map_ext_in _ (fun c => (INR c + alpha) / (INR (list_sum cnts) + alpha * INR p))).
      + rewrite Rsum_smoothed, Hlen. apply Rinv_r. lra.
      + intros c _. rewrite smoothed_log_R. apply exp_ln.
        apply Rdiv_lt_0_compat; [pose proof (pos_INR c); lra | exact HD].
  Qed.
End Counts.
