(* C11 — predict of the fitted models: total over the reals, and every returned label is a MAP class. *)
From Coq Require Import List ZArith Bool Arith Lia Reals Lra.
From SC Require Import Base.Num C11.Model C11.ProofsLabels C11.ProofsCounts C11.ProofsStats
     C11.ProofsStats2 C11.ProofsArgmax.
Import ListNotations.
Local Open Scope R_scope.

(* label is classes[k] for an index k maximising ll k + ln prior_k *)
Definition is_map (classes : list Z) (priors : list R) (ll : nat -> R) (label : Z) : Prop :=
  exists k, (k < length classes)%nat /\ label = nth k classes 0%Z /\
            forall j, (j < length classes)%nat ->
                      class_score ROps ll priors j <= class_score ROps ll priors k.

Lemma predict_row_is_map classes priors ll : classes <> [] ->
  exists label, predict_row ROps classes priors ll = Some label /\ is_map classes priors ll label.
Proof.
  intros Hne. destruct (predict_row_map classes priors ll Hne) as (k & Hk & Hlt & Hmax & _).
  exists (nth k classes 0%Z). split; [exact Hk|]. exists k. auto.
Qed.

Lemma all_some_map_ex {A B} (f : A -> option B) (P : A -> B -> Prop) (l : list A) :
  (forall a, In a l -> exists b, f a = Some b /\ P a b) ->
  exists r, all_some (map f l) = Some r /\ Forall2 P l r.
Proof.
  induction l as [|a t IH]; intros H.
  - exists []. split; [reflexivity | constructor].
  - destruct (H a (or_introl eq_refl)) as (b & Hb & HP).
    destruct IH as (r & Hr & HF); [intros a' Ha'; apply H; right; exact Ha'|].
    exists (b :: r). cbn [map all_some]. rewrite Hb, Hr. split; [reflexivity | constructor; assumption].
Qed.

Lemma classes_nonempty {A} (x : list (list A)) (y : list Z) :
  shape_ok x y = true -> fst (unique_with_indices y) <> [].
Proof.
  intros Hs. destruct (shape_ok_inv x y Hs) as [Hlen Hpos].
  destruct y as [|c t]; [cbn in Hlen; lia|].
  assert (Hin : In c (fst (unique_with_indices (c :: t)))) by (apply unique_classes_in; left; reflexivity).
  intros E. rewrite E in Hin. exact Hin.
Qed.

Lemma gaussian_predict_map pi_ x y user m q :
  gaussian_fit ROps x y user = Some m ->
  exists labels, gaussian_predict ROps pi_ m q = Some labels /\
    Forall2 (fun row label => is_map m.(g_classes) m.(g_priors) (gaussian_ll ROps pi_ m row) label) q labels.
Proof.
  intros Hfit. destruct (gaussian_fit_inv x y user m Hfit) as (Hs & Hc & _).
  unfold gaussian_predict. apply all_some_map_ex. intros row _.
  apply predict_row_is_map. rewrite Hc. apply (classes_nonempty x y Hs).
Qed.

Section Counts.
  Variable to_usize : R -> option nat.
  Variable to_cat : R -> option nat.

  Lemma multinomial_predict_map x y alpha user m q :
    multinomial_fit ROps to_usize x y alpha user = Some m ->
    exists labels, multinomial_predict ROps m q = Some labels /\
      Forall2 (fun row label => is_map m.(c_classes) m.(c_priors) (multinomial_ll ROps m row) label) q labels.
  Proof.
    intros Hfit. destruct (multinomial_fit_inv to_usize x y alpha user m Hfit) as (xc & Hs & _ & _ & Hc & _).
    unfold multinomial_predict. apply all_some_map_ex. intros row _.
    apply predict_row_is_map. rewrite Hc. apply (classes_nonempty x y Hs).
  Qed.

  Lemma bernoulli_predict_map x0 y alpha user th m q :
    bernoulli_fit ROps to_usize x0 y alpha user th = Some m ->
    exists labels, bernoulli_predict ROps m th q = Some labels /\
      Forall2 (fun row label => is_map m.(c_classes) m.(c_priors) (bernoulli_ll ROps m row) label)
              (binarize ROps th q) labels.
  Proof.
    intros Hfit. destruct (bernoulli_fit_inv to_usize x0 y alpha user th m Hfit) as (xc & Hs & _ & Hc & _).
    unfold bernoulli_predict. apply all_some_map_ex. intros row _.
    apply predict_row_is_map. rewrite Hc. apply (classes_nonempty _ y Hs).
  Qed.

  Lemma categorical_ll_from_total (m : catnb) k jvs : forall acc,
    (forall jv, In jv jvs -> to_cat (snd jv) <> None) ->
    exists v, categorical_ll_from ROps to_cat m k jvs acc = Some v.
  Proof.
    induction jvs as [|[j v] t IH]; intros acc H; cbn [categorical_ll_from].
    - eexists; reflexivity.
    - destruct (to_cat v) as [c|] eqn:E.
      + destruct (Nat.ltb c (length (nth k (nth j (k_coef m) []) []))).
        * apply IH. intros jv Hjv. apply H. right. exact Hjv.
        * eexists; reflexivity.
      + exfalso. apply (H (j, v)); [left; reflexivity | exact E].
  Qed.

  Lemma categorical_predict_map x y alpha m q :
    categorical_fit ROps to_cat x y alpha = Some m ->
    (forall row, In row q -> forall v, In v row -> to_cat v <> None) ->
    exists labels, categorical_predict ROps to_cat m q = Some labels /\
      Forall2 (fun row label =>
                 exists lls, Forall2 (fun k v => categorical_ll ROps to_cat m row k = Some v)
                                     (seq 0 (length m.(k_classes))) lls /\
                             is_map m.(k_classes) m.(k_priors) (fun k => nth k lls 0) label)
              q labels.
  Proof.
    intros Hfit Hq.
    destruct (categorical_fit_inv to_cat x y alpha m Hfit) as (yl & xc & _ & _ & _ & Hcl & _).
    unfold categorical_predict. apply all_some_map_ex. intros row Hrow.
    destruct (all_some_map_ex (categorical_ll ROps to_cat m row)
                              (fun k v => categorical_ll ROps to_cat m row k = Some v)
                              (seq 0 (length (k_classes m)))) as (lls & Hlls & HF).
    { intros k _. unfold categorical_ll.
      destruct (categorical_ll_from_total m k (zip (seq 0 (length row)) row) 0) as (v & Hv).
      - intros jv Hjv. apply (Hq row Hrow). apply (in_zip_r _ _ jv Hjv).
      - exists v. split; exact Hv. }
    rewrite Hlls.
    destruct (predict_row_is_map (k_classes m) (k_priors m) (fun k => nth k lls 0)) as (label & Hl & Hmap).
    { rewrite Hcl. rewrite Nat.add_1_r. cbn. discriminate. }
    exists label. split; [exact Hl|]. exists lls. split; [exact HF | exact Hmap].
  Qed.
End Counts.

(* the count-based fitted models report the classes / counts / priors of the label theorems *)
Lemma counts_bookkeeping_multinomial to_usize x y alpha user m :
  multinomial_fit ROps to_usize x y alpha user = Some m ->
  let classes := fst (unique_with_indices y) in
  let counts := count_classes (length classes) (snd (unique_with_indices y)) in
  length x = length y /\ (0 < length x)%nat /\
  m.(c_classes) = classes /\ m.(c_count) = counts /\
  class_priors ROps user counts (length x) = Some m.(c_priors).
Proof.
  intros H. destruct (multinomial_fit_inv to_usize x y alpha user m H) as (xc & Hs & _ & _ & Hc & Hn & Hp & _).
  destruct (shape_ok_inv x y Hs). cbn zeta. auto.
Qed.

Lemma binarize_length th (x : list (list R)) : length (binarize ROps th x) = length x.
Proof. destruct th; cbn; [apply map_length | reflexivity]. Qed.

Lemma counts_bookkeeping_bernoulli to_usize x y alpha user th m :
  bernoulli_fit ROps to_usize x y alpha user th = Some m ->
  let classes := fst (unique_with_indices y) in
  let counts := count_classes (length classes) (snd (unique_with_indices y)) in
  length x = length y /\ (0 < length x)%nat /\
  m.(c_classes) = classes /\ m.(c_count) = counts /\
  class_priors ROps user counts (length x) = Some m.(c_priors).
Proof.
  intros H. destruct (bernoulli_fit_inv to_usize x y alpha user th m H) as (xc & Hs & _ & Hc & Hn & Hp & _).
  destruct (shape_ok_inv _ y Hs) as [H1 H2]. rewrite binarize_length in *. cbn zeta. auto.
Qed.

(* categorical: counts total n, priors are count / n and sum to one *)
Lemma max_nat_lt_all (l : list nat) : Forall (fun v => (v < max_nat l + 1)%nat) l.
Proof. apply Forall_forall. intros v Hv. pose proof (max_nat_ge l v Hv). lia. Qed.

Lemma categorical_bookkeeping to_cat x y alpha m :
  categorical_fit ROps to_cat x y alpha = Some m ->
  exists yl, labels_to_usize y = Some yl /\ length yl = length x /\ (0 < length x)%nat /\
    m.(k_classes) = map Z.of_nat (seq 0 (max_nat yl + 1)) /\
    (forall l, (l < max_nat yl + 1)%nat -> nth l m.(k_count) 0%nat = length (filter (fun v => Nat.eqb v l) yl)) /\
    list_sum m.(k_count) = length x /\
    m.(k_priors) = map (fun c => INR c / INR (length x)) m.(k_count) /\
    Rsum m.(k_priors) = 1.
Proof.
  intros H. destruct (categorical_fit_inv to_cat x y alpha m H)
    as (yl & xc & Hs & Hy & Hx & Hcl & Hcnt & Hpri & _).
  destruct (shape_ok_inv x y Hs) as [Hlen Hpos].
  assert (Hyl : length yl = length x).
  { unfold labels_to_usize in Hy. apply all_some_length in Hy. rewrite map_length in Hy. lia. }
  assert (Hsum : list_sum (k_count m) = length x).
  { rewrite Hcnt, count_classes_sum by apply max_nat_lt_all. exact Hyl. }
  exists yl. repeat split; auto.
  - intros l Hl. rewrite Hcnt. apply count_classes_nth. exact Hl.
  - rewrite Hpri, Hcnt. reflexivity.
  - rewrite Hpri, <- Hcnt. apply priors_sum_one; assumption.
Qed.
