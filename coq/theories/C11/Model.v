(* C11 — executable model of smartcore's naive Bayes classifiers
   (src/naive_bayes/{mod,gaussian,multinomial,bernoulli,categorical}.rs, src/math/vector.rs
   unique_with_indices, src/linalg/stats.rs mean/var/binarize).
   Definitions only; proofs are in Proofs*.v so that the model still runs when a proof breaks.

   Transliteration notes
   - matrices are lists of rows (the code only uses shape / get / get_row / get_col_as_vec / row_iter);
   - class labels are integer-valued reals (property text); they are represented by their integer
     value `Z` (`to_i64` of the label, which `unique_with_indices` uses as the hash key, is the
     identity on them).  `sort_by(partial_cmp)` + `dedup` on integers is any sort + dedup;
     the `HashMap<i64,usize>` lookup is `index_of` in the sorted duplicate-free list;
   - counts are `nat` (Rust `usize`), statistics are generic in `Ops T`
     (`ROps`: theorems, `FOps`: execution on binary64);
   - `T::from(c).unwrap()` of a count is `oofnat`; `T::two()` is `1 + 1`; `powi(2)` / `powf(2)` is `a * a`;
   - f64 -> usize conversions are the section variables `to_usize` (num-traits `to_usize`:
     truncation, `None` out of range) and `to_cat` (`floor().to_usize()`); a `None` of `to_cat`
     is the `unwrap()` panic;
   - `Err(..)` and panics are `None`;
   - `Iterator::max_by` keeps the LAST maximum; `partial_cmp(..).unwrap()` panics on NaN. *)
From Coq Require Import List ZArith Bool Arith.
From SC Require Import Base.Num.
Import ListNotations.

(* ---------- generic list helpers ---------- *)
Fixpoint zip {A B} (l1 : list A) (l2 : list B) : list (A * B) :=
  match l1, l2 with a :: t1, b :: t2 => (a, b) :: zip t1 t2 | _, _ => [] end.

(* v[i] = f(v[i])  (Rust panics out of range; never out of range in the models below) *)
Fixpoint upd {A} (l : list A) (i : nat) (f : A -> A) : list A :=
  match l with
  | [] => []
  | a :: t => match i with 0 => f a :: t | S j => a :: upd t j f end
  end.

Fixpoint all_some {A} (l : list (option A)) : option (list A) :=
  match l with
  | [] => Some []
  | None :: _ => None
  | Some a :: t => match all_some t with None => None | Some r => Some (a :: r) end
  end.

(* ---------- src/math/vector.rs : unique_with_indices ---------- *)
Fixpoint insertZ (x : Z) (l : list Z) : list Z :=
  match l with
  | [] => [x]
  | y :: t => if (x <=? y)%Z then x :: l else y :: insertZ x t
  end.
Definition sortZ (l : list Z) : list Z := fold_right insertZ [] l.
Fixpoint dedupZ (l : list Z) : list Z :=
  match l with
  | [] => []
  | x :: t => match t with
              | [] => [x]
              | y :: _ => if (x =? y)%Z then dedupZ t else x :: dedupZ t
              end
  end.
Fixpoint index_of (c : Z) (l : list Z) : nat :=
  match l with
  | [] => 0
  | x :: t => if (x =? c)%Z then 0 else S (index_of c t)
  end.
Definition unique_with_indices (y : list Z) : list Z * list nat :=
  let u := dedupZ (sortZ y) in (u, map (fun c => index_of c u) y).

(* class_count[class_index] += 1 for every row *)
Definition count_classes (k : nat) (indices : list nat) : list nat :=
  fold_left (fun cc ci => upd cc ci S) indices (repeat 0 k).

(* feature_in_class_counter[class_index][idx] += row[idx] *)
Fixpoint vadd (cnt row : list nat) : list nat :=
  match cnt, row with
  | c :: t, r :: u => (c + r) :: vadd t u
  | _, _ => cnt
  end.
Definition count_features (k p : nat) (xc : list (list nat)) (indices : list nat) : list (list nat) :=
  fold_left (fun fc ri => upd fc (snd ri) (fun cnt => vadd cnt (fst ri))) (zip xc indices)
            (repeat (repeat 0 p) k).

(* usize `iter().sum()` / `iter().max()` *)
Definition sum_nat (l : list nat) : nat := fold_left Nat.add l 0.
Definition max_nat (l : list nat) : nat := fold_left Nat.max l 0.

(* ---------- BaseNaiveBayes::predict : arg-max with max_by semantics ---------- *)
Section Generic.
  Context {T : Type} (O : Ops T).

  Definition two : T := O.(oadd) O.(o1) O.(o1).

  (* Some true: partial_cmp(a,b) = Greater; Some false: Less or Equal; None: unordered (unwrap panics) *)
  Definition cmp_gt (a b : T) : option bool :=
    if O.(oltb) a b then Some false
    else if O.(oltb) b a then Some true
    else if O.(oeqb) a b then Some false
    else None.

  (* reduce(|x, y| match compare(&x,&y) { Greater => x, _ => y }) *)
  Fixpoint max_by_last (best : nat * T) (l : list (nat * T)) : option (nat * T) :=
    match l with
    | [] => Some best
    | y :: t =>
      match cmp_gt (snd best) (snd y) with
      | None => None
      | Some true => max_by_last best t
      | Some false => max_by_last y t
      end
    end.

  Definition scores (nclasses : nat) (score : nat -> T) : list (nat * T) :=
    map (fun k => (k, score k)) (seq 0 nclasses).

  Definition argmax_class (nclasses : nat) (score : nat -> T) : option nat :=
    match scores nclasses score with
    | [] => None                                   (* max_by(..).unwrap() on an empty iterator *)
    | s0 :: t => option_map fst (max_by_last s0 t)
    end.

  (* score of a class = log_likelihood(class_index, row) + prior(class_index).ln() *)
  Definition class_score (ll : nat -> T) (priors : list T) (k : nat) : T :=
    O.(oadd) (ll k) (O.(oln) (nth k priors O.(o0))).

  Definition predict_row (classes : list Z) (priors : list T) (ll : nat -> T) : option Z :=
    option_map (fun k => nth k classes 0%Z)
               (argmax_class (length classes) (class_score ll priors)).

  (* ---------- priors ---------- *)
  Definition class_priors (user : option (list T)) (counts : list nat) (n : nat) : option (list T) :=
    match user with
    | Some p => if Nat.eqb (length p) (length counts) then Some p else None
    | None => Some (map (fun c => O.(odiv) (oofnat O c) (oofnat O n)) counts)
    end.

  Definition shape_ok {A} (x : list (list A)) (y : list Z) : bool :=
    Nat.eqb (length y) (length x) && negb (Nat.eqb (length x) 0).
  Definition ncols {A} (x : list (list A)) : nat := length (hd [] x).

  (* =====================  Gaussian  ===================== *)
  Record gnb := { g_classes : list Z; g_count : list nat; g_priors : list T;
                  g_var : list (list T); g_theta : list (list T) }.

  (* subdataset[class_index].push(row) *)
  Definition split_rows {A} (k : nat) (x : list (list A)) (indices : list nat) : list (list (list A)) :=
    fold_left (fun sd ri => upd sd (snd ri) (fun rows => rows ++ [fst ri])) (zip x indices) (repeat [] k).

  (* MatrixStats::mean(0), one column *)
  Definition col_mean (data : list (list T)) (j : nat) : T :=
    O.(odiv) (fold_left (fun s row => O.(oadd) s (nth j row O.(o0))) data O.(o0))
             (oofnat O (length data)).
  (* MatrixStats::var(0), one column: the one-pass form sum/div - mu^2 *)
  Definition col_var (data : list (list T)) (j : nat) : T :=
    let ms := fold_left (fun ms row => let a := nth j row O.(o0) in
                                       (O.(oadd) (fst ms) a, O.(oadd) (snd ms) (O.(omul) a a)))
                        data (O.(o0), O.(o0)) in
    let div := oofnat O (length data) in
    let mu := O.(odiv) (fst ms) div in
    O.(osub) (O.(odiv) (snd ms) div) (O.(omul) mu mu).

  Definition gaussian_fit (x : list (list T)) (y : list Z) (user : option (list T)) : option gnb :=
    if shape_ok x y then
      let p := ncols x in
      let '(classes, indices) := unique_with_indices y in
      let k := length classes in
      let counts := count_classes k indices in
      let sub := split_rows k x indices in
      match class_priors user counts (length x) with
      | None => None
      | Some pri =>
        Some {| g_classes := classes; g_count := counts; g_priors := pri;
                g_var := map (fun data => map (col_var data) (seq 0 p)) sub;
                g_theta := map (fun data => map (col_mean data) (seq 0 p)) sub |}
      end
    else None.

  Variable pi_ : T.
  (* -((value-mean)^2 / (2 variance)) - ln(2 pi)/2 - ln(variance)/2 *)
  Definition glogp (value mean variance : T) : T :=
    let d := O.(osub) value mean in
    O.(osub)
      (O.(osub) (O.(oneg) (O.(odiv) (O.(omul) d d) (O.(omul) two variance)))
                (O.(odiv) (O.(oln) (O.(omul) two pi_)) two))
      (O.(odiv) (O.(oln) variance) two).

  Definition gaussian_ll (m : gnb) (row : list T) (k : nat) : T :=
    fold_left (fun acc jv =>
                 O.(oadd) acc (glogp (snd jv) (nth (fst jv) (nth k m.(g_theta) []) O.(o0))
                                     (nth (fst jv) (nth k m.(g_var) []) O.(o0))))
              (zip (seq 0 (length row)) row) O.(o0).

  Definition gaussian_predict (m : gnb) (q : list (list T)) : option (list Z) :=
    all_some (map (fun row => predict_row m.(g_classes) m.(g_priors) (gaussian_ll m row)) q).

  (* =====================  count-based variants  ===================== *)
  Variable to_usize : T -> option nat.     (* num-traits to_usize: truncation, None out of range *)
  Variable to_cat : T -> option nat.       (* floor().to_usize(): None is the unwrap() panic *)

  Definition convert (f : T -> option nat) (x : list (list T)) : option (list (list nat)) :=
    all_some (map (fun row => all_some (map f row)) x).

  Record cnb := { c_classes : list Z; c_count : list nat; c_priors : list T;
                  c_fcount : list (list nat); c_flp : list (list T) }.

  Definition alpha_ok (alpha : T) : bool := negb (O.(oltb) alpha O.(o0)).

  (* ---- multinomial ---- *)
  Definition smoothed_log (alpha : T) (count denom_count mult : nat) : T :=
    O.(oln) (O.(odiv) (O.(oadd) (oofnat O count) alpha)
                      (O.(oadd) (oofnat O denom_count) (O.(omul) alpha (oofnat O mult)))).

  Definition multinomial_fit (x : list (list T)) (y : list Z) (alpha : T) (user : option (list T))
    : option cnb :=
    if shape_ok x y && alpha_ok alpha then
      let p := ncols x in
      let '(classes, indices) := unique_with_indices y in
      let k := length classes in
      let counts := count_classes k indices in
      match class_priors user counts (length x) with
      | None => None
      | Some pri =>
        match convert to_usize x with
        | None => None
        | Some xc =>
          let fc := count_features k p xc indices in
          Some {| c_classes := classes; c_count := counts; c_priors := pri; c_fcount := fc;
                  c_flp := map (fun cnts => let n_c := sum_nat cnts in
                                            map (fun c => smoothed_log alpha c n_c p) cnts) fc |}
        end
      end
    else None.

  Definition multinomial_ll (m : cnb) (row : list T) (k : nat) : T :=
    fold_left (fun acc jv => O.(oadd) acc (O.(omul) (snd jv) (nth (fst jv) (nth k m.(c_flp) []) O.(o0))))
              (zip (seq 0 (length row)) row) O.(o0).

  Definition multinomial_predict (m : cnb) (q : list (list T)) : option (list Z) :=
    all_some (map (fun row => predict_row m.(c_classes) m.(c_priors) (multinomial_ll m row)) q).

  (* ---- Bernoulli ---- *)
  Definition binarize (threshold : option T) (x : list (list T)) : list (list T) :=
    match threshold with
    | None => x
    | Some th => map (map (fun v => if O.(oltb) th v then O.(o1) else O.(o0))) x
    end.

  (* (count + alpha) / (class_count + alpha * 2) *)
  Definition bernoulli_log (alpha : T) (count class_count : nat) : T :=
    O.(oln) (O.(odiv) (O.(oadd) (oofnat O count) alpha)
                      (O.(oadd) (oofnat O class_count) (O.(omul) alpha two))).

  Definition bernoulli_fit (x0 : list (list T)) (y : list Z) (alpha : T) (user : option (list T))
             (threshold : option T) : option cnb :=
    let x := binarize threshold x0 in
    if shape_ok x y && alpha_ok alpha then
      let p := ncols x in
      let '(classes, indices) := unique_with_indices y in
      let k := length classes in
      let counts := count_classes k indices in
      match class_priors user counts (length x) with
      | None => None
      | Some pri =>
        match convert to_usize x with
        | None => None
        | Some xc =>
          let fc := count_features k p xc indices in
          Some {| c_classes := classes; c_count := counts; c_priors := pri; c_fcount := fc;
                  c_flp := map (fun cc => map (fun c => bernoulli_log alpha c (snd cc)) (fst cc))
                               (zip fc counts) |}
        end
      end
    else None.

  Definition bernoulli_ll (m : cnb) (row : list T) (k : nat) : T :=
    fold_left (fun acc jv =>
                 let lp := nth (fst jv) (nth k m.(c_flp) []) O.(o0) in
                 if O.(oeqb) (snd jv) O.(o1) then O.(oadd) acc lp
                 else O.(oadd) acc (O.(oln) (O.(osub) O.(o1) (O.(oexp) lp))))
              (zip (seq 0 (length row)) row) O.(o0).

  Definition bernoulli_predict (m : cnb) (threshold : option T) (q : list (list T)) : option (list Z) :=
    all_some (map (fun row => predict_row m.(c_classes) m.(c_priors) (bernoulli_ll m row))
                  (binarize threshold q)).

  (* ---- categorical ---- *)
  Record catnb := { k_classes : list Z; k_count : list nat; k_priors : list T;
                    k_ncat : list nat;
                    k_catcount : list (list (list nat));      (* [feature][class][category] *)
                    k_coef : list (list (list T)) }.

  Definition column {A} (d : A) (x : list (list A)) (j : nat) : list A := map (fun row => nth j row d) x.

  (* (count + alpha) / (label_count + n_categories * alpha) *)
  Definition categorical_log (alpha : T) (count label_count ncat : nat) : T :=
    O.(oln) (O.(odiv) (O.(oadd) (oofnat O count) alpha)
                      (O.(oadd) (oofnat O label_count) (O.(omul) (oofnat O ncat) alpha))).

  (* feat_count[value] += 1 over the rows of one class *)
  Definition count_categories (ncat : nat) (col : list nat) : list nat :=
    fold_left (fun fc v => upd fc v S) col (repeat 0 ncat).

  Definition labels_to_usize (y : list Z) : option (list nat) :=
    all_some (map (fun l => if (l <? 0)%Z then None else Some (Z.to_nat l)) y).

  Definition categorical_fit (x : list (list T)) (y : list Z) (alpha : T) : option catnb :=
    if alpha_ok alpha && shape_ok x y then
      match labels_to_usize y, convert to_cat x with
      | Some yl, Some xc =>
        let p := ncols x in
        let y_max := max_nat yl in
        let labels := seq 0 (y_max + 1) in
        let counts := count_classes (y_max + 1) yl in
        let ncat := map (fun j => max_nat (column 0 xc j) + 1) (seq 0 p) in
        let per_feature :=
            map (fun jn =>
                   map (fun lc =>
                          let col := map snd (filter (fun yv => Nat.eqb (fst yv) (fst lc))
                                                     (zip yl (column 0 xc (fst jn)))) in
                          count_categories (snd jn) col)
                       (zip labels counts))
                (zip (seq 0 p) ncat) in
        Some {| k_classes := map Z.of_nat labels; k_count := counts;
                k_priors := map (fun c => O.(odiv) (oofnat O c) (oofnat O (length x))) counts;
                k_ncat := ncat;
                k_catcount := per_feature;
                k_coef := map (fun fn =>
                                 map (fun cc => map (fun c => categorical_log alpha c (snd cc) (snd fn)) (fst cc))
                                     (zip (fst fn) counts))
                              (zip per_feature ncat) |}
      | _, _ => None
      end
    else None.

  (* `value = j.get(feature).floor().to_usize().unwrap()` (None = panic), and
     `return T::zero()` as soon as a value has no coefficient *)
  Fixpoint categorical_ll_from (m : catnb) (k : nat) (jvs : list (nat * T)) (acc : T) : option T :=
    match jvs with
    | [] => Some acc
    | (j, v) :: t =>
      match to_cat v with
      | None => None
      | Some c =>
        let coefs := nth k (nth j m.(k_coef) []) [] in
        if Nat.ltb c (length coefs) then categorical_ll_from m k t (O.(oadd) acc (nth c coefs O.(o0)))
        else Some O.(o0)
      end
    end.
  Definition categorical_ll (m : catnb) (row : list T) (k : nat) : option T :=
    categorical_ll_from m k (zip (seq 0 (length row)) row) O.(o0).

  Definition categorical_predict (m : catnb) (q : list (list T)) : option (list Z) :=
    all_some (map (fun row =>
                     match all_some (map (categorical_ll m row) (seq 0 (length m.(k_classes)))) with
                     | None => None
                     | Some lls => predict_row m.(k_classes) m.(k_priors) (fun k => nth k lls O.(o0))
                     end) q).
End Generic.

(* ---------- the *NBParameters structs and their builder methods ----------
   One record stands for the four parameter structs: GaussianNBParameters has only `priors`,
   MultinomialNBParameters `alpha` and `priors`, BernoulliNBParameters all three,
   CategoricalNBParameters only `alpha` (a field a struct does not have is never set and never read).
   `pub fn with_f(mut self, v) -> Self { self.f = v; self }` (with `Some(v)` for the optional
   fields): one field is replaced, the others are kept.  `*_default` is `Default::default()`:
   alpha = 1, priors = None, and for the Bernoulli variant binarize = Some(0). *)
Section Builder.
  Context {T : Type} (O : Ops T).

  Record nbparams := mkParams { np_alpha : T; np_priors : option (list T); np_binarize : option T }.
  Inductive bstep := WithAlpha (a : T) | WithPriors (p : list T) | WithBinarize (t : T).

  Definition with_alpha (p : nbparams) (a : T) : nbparams := mkParams a p.(np_priors) p.(np_binarize).
  Definition with_priors (p : nbparams) (pr : list T) : nbparams := mkParams p.(np_alpha) (Some pr) p.(np_binarize).
  Definition with_binarize (p : nbparams) (t : T) : nbparams := mkParams p.(np_alpha) p.(np_priors) (Some t).

  Definition apply_step (p : nbparams) (s : bstep) : nbparams :=
    match s with
    | WithAlpha a => with_alpha p a
    | WithPriors pr => with_priors p pr
    | WithBinarize t => with_binarize p t
    end.
  (* Default::default().with_..(..).with_..(..) ... *)
  Definition build_params (d : nbparams) (steps : list bstep) : nbparams := fold_left apply_step steps d.

  Definition plain_default : nbparams := mkParams O.(o1) None None.            (* Gaussian, multinomial, categorical *)
  Definition bernoulli_default : nbparams := mkParams O.(o1) None (Some O.(o0)).

  (* XxxNB::fit(x, y, parameters) *)
  Definition gaussian_fit_with (p : nbparams) (x : list (list T)) (y : list Z) :=
    gaussian_fit O x y p.(np_priors).
  Definition multinomial_fit_with (to_usize : T -> option nat) (p : nbparams) (x : list (list T)) (y : list Z) :=
    multinomial_fit O to_usize x y p.(np_alpha) p.(np_priors).
  Definition bernoulli_fit_with (to_usize : T -> option nat) (p : nbparams) (x : list (list T)) (y : list Z) :=
    bernoulli_fit O to_usize x y p.(np_alpha) p.(np_priors) p.(np_binarize).
  Definition categorical_fit_with (to_cat : T -> option nat) (p : nbparams) (x : list (list T)) (y : list Z) :=
    categorical_fit O to_cat x y p.(np_alpha).
End Builder.
