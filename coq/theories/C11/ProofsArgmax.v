(* C11 — the MAP decision of BaseNaiveBayes::predict: over the reals `max_by` never panics and
   returns the LAST index whose score is maximal. *)
From Coq Require Import List ZArith Bool Arith Reals Lra Lia.
From SC Require Import Base.Num C11.Model.
Import ListNotations.
Local Open Scope R_scope.

Lemma cmp_gt_R (a b : R) :
  cmp_gt ROps a b = Some (if Rlt_dec b a then true else false).
Proof.
  unfold cmp_gt; cbn [oltb oeqb ROps].
  destruct (Rltb a b) eqn:Hab.
  - apply Rltb_true in Hab. destruct (Rlt_dec b a); [lra | reflexivity].
  - apply Rltb_false in Hab. destruct (Rltb b a) eqn:Hba.
    + apply Rltb_true in Hba. destruct (Rlt_dec b a); [reflexivity | lra].
    + apply Rltb_false in Hba. assert (a = b) by lra. subst b.
      destruct (Reqb a a) eqn:He; [| apply Reqb_false in He; congruence].
      destruct (Rlt_dec a a); [lra | reflexivity].
Qed.

(* result of the reduction: an element of the list, at least every element, and strictly above
   every element that comes after it (= last maximum) *)
Lemma max_by_last_spec : forall (l : list (nat * R)) (best : nat * R),
  exists r, max_by_last ROps best l = Some r /\
            In r (best :: l) /\
            (forall x, In x (best :: l) -> snd x <= snd r).
Proof.
  induction l as [|y t IH]; intros best.
  - exists best. cbn. repeat split; auto. intros x [<-|[]]. lra.
  - cbn [max_by_last]. rewrite cmp_gt_R. destruct (Rlt_dec (snd y) (snd best)) as [Hlt|Hge].
    + destruct (IH best) as (r & Hr & Hin & Hmax). exists r. split; [exact Hr|]. split.
      * destruct Hin as [<-|Hin]; [left; reflexivity | right; right; exact Hin].
      * intros x [<-|[<-|Hx]].
        -- apply Hmax. left; reflexivity.
        -- specialize (Hmax best (or_introl eq_refl)). lra.
        -- apply Hmax. right; exact Hx.
    + destruct (IH y) as (r & Hr & Hin & Hmax). exists r. split; [exact Hr|]. split.
      * right. exact Hin.
      * intros x [<-|[<-|Hx]].
        -- specialize (Hmax y (or_introl eq_refl)). lra.
        -- apply Hmax. left; reflexivity.
        -- apply Hmax. right; exact Hx.
Qed.

(* position-aware version: elements after the chosen one are strictly smaller *)
Lemma max_by_last_strict_after : forall (l : list (nat * R)) (best r : nat * R),
  max_by_last ROps best l = Some r ->
  exists pre post, best :: l = pre ++ r :: post /\ (forall x, In x post -> snd x < snd r).
Proof.
  induction l as [|y t IH]; intros best r H.
  - cbn in H. injection H as <-. exists [], []. split; [reflexivity | intros x []].
  - cbn [max_by_last] in H. rewrite cmp_gt_R in H.
    destruct (Rlt_dec (snd y) (snd best)) as [Hlt|Hge].
    + destruct (IH best r H) as (pre & post & Heq & Hpost).
      destruct pre as [|b pre'].
      * cbn in Heq. injection Heq as H1 H2. subst r post. exists [], (y :: t). split; [reflexivity|].
        intros x [<-|Hx]; [exact Hlt | apply Hpost; exact Hx].
      * cbn in Heq. injection Heq as H1 H2. subst b. exists (best :: y :: pre'), post.
        split; [cbn; rewrite H2; reflexivity | exact Hpost].
    + destruct (IH y r H) as (pre & post & Heq & Hpost).
      exists (best :: pre), post. split; [cbn; rewrite Heq; reflexivity | exact Hpost].
Qed.

Lemma scores_in (n : nat) (score : nat -> R) (x : nat * R) :
  In x (scores n score) <-> (fst x < n)%nat /\ snd x = score (fst x).
Proof.
  unfold scores. rewrite in_map_iff. split.
  - intros (k & <- & Hk). apply in_seq in Hk. cbn. split; [lia | reflexivity].
  - intros [Hlt Heq]. exists (fst x). split.
    + destruct x; cbn in *. subst. reflexivity.
    + apply in_seq. lia.
Qed.

Lemma argmax_class_spec (n : nat) (score : nat -> R) :
  (0 < n)%nat ->
  exists k, argmax_class ROps n score = Some k /\ (k < n)%nat /\
            (forall j, (j < n)%nat -> score j <= score k).
Proof.
  intros Hn. unfold argmax_class.
  destruct (scores n score) as [|s0 t] eqn:Hs.
  - destruct n; [lia|]. unfold scores in Hs. cbn in Hs. discriminate.
  - destruct (max_by_last_spec t s0) as (r & Hr & Hin & Hmax).
    exists (fst r). rewrite Hr. cbn [option_map]. split; [reflexivity|].
    rewrite <- Hs in Hin, Hmax. apply scores_in in Hin. destruct Hin as [Hlt Heq].
    split; [exact Hlt|]. intros j Hj.
    specialize (Hmax (j, score j)). rewrite <- Heq. cbn in Hmax. apply Hmax.
    apply scores_in. cbn. split; [exact Hj | reflexivity].
Qed.

Lemma nth_scores (n : nat) (score : nat -> R) (j : nat) :
  (j < n)%nat -> nth j (scores n score) (0%nat, score 0%nat) = (j, score j).
Proof.
  intros Hj. unfold scores. change (0%nat, score 0%nat) with ((fun k => (k, score k)) 0%nat).
  rewrite map_nth, seq_nth by exact Hj. reflexivity.
Qed.
Lemma scores_length (n : nat) (score : nat -> R) : length (scores n score) = n.
Proof. unfold scores. rewrite map_length, seq_length. reflexivity. Qed.

(* last maximum: every later class scores strictly less *)
Lemma argmax_class_last (n : nat) (score : nat -> R) (k : nat) :
  argmax_class ROps n score = Some k ->
  forall j, (k < j < n)%nat -> score j < score k.
Proof.
  unfold argmax_class. destruct (scores n score) as [|s0 t] eqn:Hs; [discriminate|].
  destruct (max_by_last ROps s0 t) as [r|] eqn:Hr; [|discriminate].
  cbn [option_map]. intros [= <-] j Hj.
  destruct (max_by_last_strict_after t s0 r Hr) as (pre & post & Heq & Hpost).
  rewrite <- Hs in Heq.
  assert (Hlen_all : (length pre + S (length post) = n)%nat).
  { pose proof (scores_length n score) as HL. rewrite Heq, app_length in HL. cbn in HL. exact HL. }
  assert (Hlen : length pre = fst r).
  { assert (Hlt : (length pre < n)%nat) by lia.
    pose proof (nth_scores n score (length pre) Hlt) as Hnth.
    rewrite Heq, app_nth2, Nat.sub_diag in Hnth by lia. cbn in Hnth. rewrite Hnth. reflexivity. }
  assert (Hrs : snd r = score (fst r)).
  { assert (Hlt : (length pre < n)%nat) by lia.
    pose proof (nth_scores n score (length pre) Hlt) as Hnth.
    rewrite Heq, app_nth2, Nat.sub_diag in Hnth by lia. cbn in Hnth. rewrite Hnth. cbn.
    reflexivity. }
  assert (Hj_in : In (j, score j) post).
  { pose proof (nth_scores n score j (proj2 Hj)) as Hnth.
    rewrite Heq, app_nth2 in Hnth by lia.
    rewrite Hlen in Hnth. destruct (j - fst r)%nat as [|d] eqn:Hd; [lia|].
    cbn in Hnth. rewrite <- Hnth. apply nth_In. lia. }
  specialize (Hpost _ Hj_in). cbn in Hpost. rewrite <- Hrs. exact Hpost.
Qed.

(* the label returned by predict_row is a class of the model, its score is maximal *)
Lemma predict_row_map (classes : list Z) (priors : list R) (ll : nat -> R) :
  classes <> [] ->
  exists k, predict_row ROps classes priors ll = Some (nth k classes 0%Z) /\
            (k < length classes)%nat /\
            (forall j, (j < length classes)%nat ->
                       class_score ROps ll priors j <= class_score ROps ll priors k) /\
            (forall j, (k < j < length classes)%nat ->
                       class_score ROps ll priors j < class_score ROps ll priors k).
Proof.
  intros Hne. assert (Hn : (0 < length classes)%nat) by (destruct classes; [congruence | cbn; lia]).
  destruct (argmax_class_spec (length classes) (class_score ROps ll priors) Hn) as (k & Hk & Hlt & Hmax).
  exists k. unfold predict_row. rewrite Hk. cbn [option_map]. repeat split; auto.
  apply argmax_class_last. exact Hk.
Qed.
