(* C11 — the parameter builders: after any sequence of `with_*` calls every field holds the value of
   the LAST call that set it (the initial value if there was none); hence two call sequences with
   the same last values — in particular any reordering of calls that set distinct fields — produce
   the same parameters and therefore the same fitted model.  Axiom-free, generic in the scalar type. *)
From Coq Require Import List ZArith Bool Arith Permutation.
From SC Require Import Base.Num C11.Model.
Import ListNotations.

Section BuilderProofs.
  Context {T : Type}.
  Notation step := (@bstep T).
  Notation params := (@nbparams T).

  (* the value set by the last call of each kind, if any *)
  Fixpoint last_alpha (acc : option T) (l : list step) : option T :=
    match l with
    | [] => acc
    | WithAlpha a :: t => last_alpha (Some a) t
    | _ :: t => last_alpha acc t
    end.
  Fixpoint last_priors (acc : option (list T)) (l : list step) : option (list T) :=
    match l with
    | [] => acc
    | WithPriors p :: t => last_priors (Some p) t
    | _ :: t => last_priors acc t
    end.
  Fixpoint last_binarize (acc : option T) (l : list step) : option T :=
    match l with
    | [] => acc
    | WithBinarize b :: t => last_binarize (Some b) t
    | _ :: t => last_binarize acc t
    end.

  Definition or_default {A} (o : option A) (d : A) : A := match o with Some a => a | None => d end.

  Lemma build_fields_acc : forall (l : list step) (d : params),
    np_alpha (build_params d l) = or_default (last_alpha None l) (np_alpha d) /\
    np_priors (build_params d l) = match last_priors None l with Some p => Some p | None => np_priors d end /\
    np_binarize (build_params d l) = match last_binarize None l with Some b => Some b | None => np_binarize d end.
  Proof.
    assert (Ha : forall (l : list step) acc a0,
               or_default (last_alpha (Some a0) l) acc = or_default (last_alpha None l) a0).
    { induction l as [|s t IH]; intros acc a0; cbn; [reflexivity|].
      destruct s; cbn; try apply IH. rewrite (IH acc a), (IH a0 a). reflexivity. }
    assert (Hp : forall (l : list step) p0,
               last_priors (Some p0) l = Some (or_default (last_priors None l) p0)).
    { induction l as [|s t IH]; intros p0; cbn; [reflexivity|].
      destruct s; cbn; try apply IH. rewrite (IH p). cbn. reflexivity. }
    assert (Hb : forall (l : list step) b0,
               last_binarize (Some b0) l = Some (or_default (last_binarize None l) b0)).
    { induction l as [|s t IH]; intros b0; cbn; [reflexivity|].
      destruct s; cbn; try apply IH. rewrite (IH t0). cbn. reflexivity. }
    induction l as [|s t IH]; intros d; [cbn; destruct d; auto|].
    unfold build_params in *. cbn [fold_left].
    destruct (IH (apply_step d s)) as (I1 & I2 & I3). rewrite I1, I2, I3. clear IH I1 I2 I3.
    destruct s; cbn [apply_step with_alpha with_priors with_binarize np_alpha np_priors np_binarize
                      last_alpha last_priors last_binarize].
    - split; [|split]; try reflexivity. symmetry. apply Ha.
    - split; [|split]; try reflexivity. rewrite Hp. unfold or_default.
      destruct (last_priors None t); reflexivity.
    - split; [|split]; try reflexivity. rewrite Hb. unfold or_default.
      destruct (last_binarize None t); reflexivity.
  Qed.

  (* the closed form of the built parameters *)
  Lemma build_last_call_wins : forall (d : params) (l : list step),
    build_params d l =
    mkParams (or_default (last_alpha None l) (np_alpha d))
             (match last_priors None l with Some p => Some p | None => np_priors d end)
             (match last_binarize None l with Some b => Some b | None => np_binarize d end).
  Proof.
    intros d l. destruct (build_fields_acc l d) as (H1 & H2 & H3).
    destruct (build_params d l) as [a p b]. cbn in H1, H2, H3. rewrite H1, H2, H3. reflexivity.
  Qed.

  (* which field a call sets *)
  Definition kind (s : step) : nat :=
    match s with WithAlpha _ => 0 | WithPriors _ => 1 | WithBinarize _ => 2 end.

  Lemma last_alpha_in : forall (l : list step) acc a,
    last_alpha acc l = Some a -> acc = Some a \/ In (WithAlpha a) l.
  Proof.
    induction l as [|s t IH]; intros acc a H; cbn in H; [left; exact H|].
    destruct s; (apply IH in H; destruct H as [H|H]; [|right; right; exact H]); auto.
    inversion H. right. left. reflexivity.
  Qed.
  Lemma last_priors_in : forall (l : list step) acc a,
    last_priors acc l = Some a -> acc = Some a \/ In (WithPriors a) l.
  Proof.
    induction l as [|s t IH]; intros acc a H; cbn in H; [left; exact H|].
    destruct s; (apply IH in H; destruct H as [H|H]; [|right; right; exact H]); auto.
    inversion H. right. left. reflexivity.
  Qed.
  Lemma last_binarize_in : forall (l : list step) acc a,
    last_binarize acc l = Some a -> acc = Some a \/ In (WithBinarize a) l.
  Proof.
    induction l as [|s t IH]; intros acc a H; cbn in H; [left; exact H|].
    destruct s; (apply IH in H; destruct H as [H|H]; [|right; right; exact H]); auto.
    inversion H. right. left. reflexivity.
  Qed.

  Lemma last_alpha_none : forall (l : list step),
    last_alpha None l = None -> forall a, ~ In (WithAlpha a) l.
  Proof.
    induction l as [|s t IH]; intros H a Hin; [exact Hin|]. cbn in H.
    destruct s; try (destruct Hin as [E|Hin]; [discriminate E | exact (IH H a Hin)]).
    clear -H. revert H. generalize a0. induction t as [|s t IH]; intros a1 H; cbn in H; [discriminate|].
    destruct s; eauto.
  Qed.
  Lemma last_priors_none : forall (l : list step),
    last_priors None l = None -> forall a, ~ In (WithPriors a) l.
  Proof.
    induction l as [|s t IH]; intros H a Hin; [exact Hin|]. cbn in H.
    destruct s; try (destruct Hin as [E|Hin]; [discriminate E | exact (IH H a Hin)]).
    clear -H. revert H. generalize p. induction t as [|s t IH]; intros a1 H; cbn in H; [discriminate|].
    destruct s; eauto.
  Qed.
  Lemma last_binarize_none : forall (l : list step),
    last_binarize None l = None -> forall a, ~ In (WithBinarize a) l.
  Proof.
    induction l as [|s t IH]; intros H a Hin; [exact Hin|]. cbn in H.
    destruct s; try (destruct Hin as [E|Hin]; [discriminate E | exact (IH H a Hin)]).
    clear -H. revert H. generalize t0. induction t as [|s t IH]; intros a1 H; cbn in H; [discriminate|].
    destruct s; eauto.
  Qed.

  (* two calls of the same kind in a sequence without repeated kinds are the same call *)
  Lemma nodup_kind_unique : forall (l : list step) s1 s2,
    NoDup (map kind l) -> In s1 l -> In s2 l -> kind s1 = kind s2 -> s1 = s2.
  Proof.
    induction l as [|s t IH]; intros s1 s2 Hnd H1 H2 Hk; [destruct H1|].
    cbn in Hnd. inversion Hnd as [|? ? Hnotin Hnd']; subst.
    destruct H1 as [<-|H1], H2 as [<-|H2]; auto.
    - exfalso. apply Hnotin. rewrite Hk. apply in_map. exact H2.
    - exfalso. apply Hnotin. rewrite <- Hk. apply in_map. exact H1.
  Qed.

  (* any reordering of a sequence that sets every field at most once builds the same parameters *)
  Lemma build_order_irrelevant : forall (d : params) (l l' : list step),
    NoDup (map kind l) -> Permutation l l' -> build_params d l = build_params d l'.
  Proof.
    intros d l l' Hnd Hperm. rewrite !build_last_call_wins.
    assert (Hnd' : NoDup (map kind l')).
    { eapply Permutation_NoDup; [apply Permutation_map; exact Hperm | exact Hnd]. }
    assert (Hin : forall s, In s l <-> In s l').
    { intros s; split; apply Permutation_in; [exact Hperm | apply Permutation_sym; exact Hperm]. }
    f_equal.
    - destruct (last_alpha None l) as [a|] eqn:E1, (last_alpha None l') as [a'|] eqn:E2; cbn; auto.
      + apply last_alpha_in in E1. apply last_alpha_in in E2.
        destruct E1 as [E1|E1]; [discriminate|]. destruct E2 as [E2|E2]; [discriminate|].
        apply Hin in E1. assert (H := nodup_kind_unique l' _ _ Hnd' E1 E2 eq_refl). inversion H. reflexivity.
      + apply last_alpha_in in E1. destruct E1 as [E1|E1]; [discriminate|].
        apply Hin in E1. exfalso. exact (last_alpha_none l' E2 a E1).
      + apply last_alpha_in in E2. destruct E2 as [E2|E2]; [discriminate|].
        apply Hin in E2. exfalso. exact (last_alpha_none l E1 a' E2).
    - destruct (last_priors None l) as [a|] eqn:E1, (last_priors None l') as [a'|] eqn:E2; cbn; auto.
      + apply last_priors_in in E1. apply last_priors_in in E2.
        destruct E1 as [E1|E1]; [discriminate|]. destruct E2 as [E2|E2]; [discriminate|].
        apply Hin in E1. assert (H := nodup_kind_unique l' _ _ Hnd' E1 E2 eq_refl). inversion H. reflexivity.
      + apply last_priors_in in E1. destruct E1 as [E1|E1]; [discriminate|].
        apply Hin in E1. exfalso. exact (last_priors_none l' E2 a E1).
      + apply last_priors_in in E2. destruct E2 as [E2|E2]; [discriminate|].
        apply Hin in E2. exfalso. exact (last_priors_none l E1 a' E2).
    - destruct (last_binarize None l) as [a|] eqn:E1, (last_binarize None l') as [a'|] eqn:E2; cbn; auto.
      + apply last_binarize_in in E1. apply last_binarize_in in E2.
        destruct E1 as [E1|E1]; [discriminate|]. destruct E2 as [E2|E2]; [discriminate|].
        apply Hin in E1. assert (H := nodup_kind_unique l' _ _ Hnd' E1 E2 eq_refl). inversion H. reflexivity.
      + apply last_binarize_in in E1. destruct E1 as [E1|E1]; [discriminate|].
        apply Hin in E1. exfalso. exact (last_binarize_none l' E2 a E1).
      + apply last_binarize_in in E2. destruct E2 as [E2|E2]; [discriminate|].
        apply Hin in E2. exfalso. exact (last_binarize_none l E1 a' E2).
  Qed.

  (* an earlier call of a kind that is set again later has no effect *)
  Lemma build_override : forall (d : params) (l1 l2 l3 : list step) (s s' : step),
    kind s = kind s' ->
    build_params d (l1 ++ s :: l2 ++ s' :: l3) = build_params d (l1 ++ l2 ++ s' :: l3).
  Proof.
    intros d l1 l2 l3 s s' Hk. unfold build_params. rewrite !fold_left_app. cbn [fold_left].
    rewrite !fold_left_app. cbn [fold_left].
    generalize (fold_left apply_step l1 d) as p. intro p.
    apply (f_equal (fold_left apply_step l3)).
    fold (build_params (apply_step p s) l2). fold (build_params p l2).
    rewrite !build_last_call_wins.
    destruct s, s'; cbn in Hk; try discriminate;
      cbn [apply_step with_alpha with_priors with_binarize np_alpha np_priors np_binarize]; reflexivity.
  Qed.
End BuilderProofs.
