(* C11 — rounding theorems for the binary64 instance (FOps) of the naive Bayes model SC.C11.Model, on top
   of Base/FloatError.v (FR x = real value of a float, ffin = finite, u64 = 2^-53, eta64 = 2^-1075,
   rnd64 = rounding to nearest binary64).

   The sufficient statistics of the code are COUNTS held in `usize` (`nat` in the model): class counts and
   feature counts do not depend on the scalar type at all, so at binary64 they are the exact integer counts
   of the theorems over the reals.  Floating point enters only through
     - `to_usize` of the training entries (exact on integer-valued floats below 2^64: f_to_usize_nat),
     - `T::from(count)` (exact below 2^53: oofnat_exact),
     - the prior  count / n  (one correctly rounded division, no underflow: prior_quotient_float),
     - the argument of the logarithm  (count + alpha) / (total + alpha * m)  (four roundings: numerator
       addition, alpha * m, denominator addition, division: relative error 5u, first-order term 4u;
       the logarithm itself is a software ln in the float instance and is NOT covered),
     - the Gaussian class mean (recursive sum, one division: vmean_float_error of C03), which on
       integer-valued data with column total <= 2^53 is the correctly rounded total / count.
   Also the generic fact behind "counts are exact in binary64": a binary64 counter that starts at 0 and is
   incremented by non-negative integer-valued floats is exact while the total is at most 2^53
   (fold_fadd_counter_exact / fsum_counter_exact), and not beyond (counter_not_exact_beyond).
   Nothing here is used by the theorems over the reals. *)
From Coq Require Import List Arith ZArith Bool Reals Floats Lra Lia Psatz.
From Flocq Require Import Core BinarySingleNaN PrimFloat.
From SC Require Import Base.FloatUtil Base.Elem Base.Num Base.FloatError.
From SC Require Import C11.Model C11.ProofsLabels C11.ProofsCounts C11.ProofsStats C11.ProofsStats2.
From SC Require C11.Corr.
From SC Require C03.Model.
From SC Require C03.ProofsFloat.
From SC Require C03.ProofsFloat2.
Import ListNotations.
Local Open Scope R_scope.
Local Existing Instance Hprec.
Local Existing Instance Hmax.

(* ---------------- "no overflow => finite" for + and * ---------------- *)
Lemma fmt64_bpow e : (-1074 <= e <= 1023)%Z -> fmt64 (bpow radix2 e).
Proof. intros H. apply generic_format_bpow. unfold FLT_exp. lia. Qed.

Lemma rnd64_abs_le a M : fmt64 M -> Rabs a <= M -> Rabs (rnd64 a) <= M.
Proof.
  intros FM H. apply Rabs_le. apply Rabs_le_inv in H. split.
  - rewrite <- (rnd64_id (- M)) by (apply fmt64_opp, FM). apply rnd64_le. lra.
  - rewrite <- (rnd64_id M) by exact FM. apply rnd64_le. lra.
Qed.

Lemma fadd_bounded x y M : ffin x -> ffin y -> fmt64 M -> M < bpow radix2 1024 ->
  Rabs (FR x + FR y) <= M -> ffin (x + y)%float /\ FR (x + y)%float = rnd64 (FR x + FR y).
Proof.
  rewrite !ffin_B. unfold FR. intros Hx Hy FM HM Hb. rewrite add_equiv.
  generalize (Bplus_correct prec emax Hprec Hmax mode_NE _ _ Hx Hy).
  pose proof (rnd64_abs_le _ _ FM Hb) as Hr. unfold rnd64 in Hr.
  rewrite Rlt_bool_true.
  - intros (P & Q & _). split; [exact Q | exact P].
  - eapply Rle_lt_trans; [exact Hr | exact HM].
Qed.

Lemma fmul_bounded x y M : ffin x -> ffin y -> fmt64 M -> M < bpow radix2 1024 ->
  Rabs (FR x * FR y) <= M -> ffin (x * y)%float /\ FR (x * y)%float = rnd64 (FR x * FR y).
Proof.
  rewrite !ffin_B. unfold FR. intros Hx Hy FM HM Hb. rewrite mul_equiv.
  generalize (Bmult_correct prec emax Hprec Hmax mode_NE (Prim2B x) (Prim2B y)).
  pose proof (rnd64_abs_le _ _ FM Hb) as Hr. unfold rnd64 in Hr.
  rewrite Rlt_bool_true.
  - intros (P & Q & _). split; [rewrite Q, Hx, Hy; reflexivity | exact P].
  - eapply Rle_lt_trans; [exact Hr | exact HM].
Qed.

(* ---------------- integer-valued floats ---------------- *)
(* v is the (finite) float whose value is the natural number c *)
Definition isnatf (v : PrimFloat.float) (c : nat) : Prop := ffin v /\ FR v = INR c.

Lemma fmt64_INR c : (Z.of_nat c <= 2 ^ 53)%Z -> fmt64 (INR c).
Proof.
  intros H. rewrite INR_IZR_INZ. destruct (Z.eq_dec (Z.of_nat c) (2 ^ 53)) as [E|NE].
  - rewrite E. change (IZR (2 ^ 53)) with (bpow radix2 53). apply fmt64_bpow. lia.
  - apply fmt64_IZR. lia.
Qed.

Lemma bpow53_lt : bpow radix2 53 < bpow radix2 1024.
Proof. apply bpow_lt. lia. Qed.

Lemma INR_le_bpow53 c : (Z.of_nat c <= 2 ^ 53)%Z -> INR c <= bpow radix2 53.
Proof. intros H. rewrite INR_IZR_INZ. change (bpow radix2 53) with (IZR (2 ^ 53)). apply IZR_le, H. Qed.

(* one exact addition of two integer-valued floats *)
Lemma fadd_nat_exact v w a c : isnatf v a -> isnatf w c -> (Z.of_nat (a + c) <= 2 ^ 53)%Z ->
  isnatf (v + w)%float (a + c).
Proof.
  intros [Fv Ev] [Fw Ew] H.
  assert (Hs : FR v + FR w = INR (a + c)) by (rewrite Ev, Ew, plus_INR; reflexivity).
  destruct (fadd_bounded v w (bpow radix2 53) Fv Fw) as [F E].
  - apply fmt64_bpow. lia.
  - exact bpow53_lt.
  - rewrite Hs, Rabs_pos_eq by apply pos_INR. apply INR_le_bpow53, H.
  - split; [exact F|]. rewrite E, Hs. apply rnd64_id, fmt64_INR, H.
Qed.

(* Target 1: a binary64 counter incremented by non-negative integer-valued floats is exact while the
   total is at most 2^53 *)
Lemma fold_fadd_counter_exact (l : list PrimFloat.float) (cs : list nat) : Forall2 isnatf l cs ->
  forall acc a, isnatf acc a -> (Z.of_nat (a + list_sum cs) <= 2 ^ 53)%Z ->
  isnatf (fold_left PrimFloat.add l acc) (a + list_sum cs).
Proof.
  induction 1 as [|t c l cs Ht HF IH]; intros acc a Ha Hb; cbn [fold_left list_sum fold_right] in *.
  - rewrite Nat.add_0_r. exact Ha.
  - change (fold_right Nat.add 0%nat cs) with (list_sum cs) in *.
    rewrite Nat.add_assoc. apply IH.
    + apply fadd_nat_exact; try assumption. lia.
    + rewrite <- Nat.add_assoc. exact Hb.
Qed.

Lemma isnatf_zero : isnatf 0%float 0.
Proof. split; [apply ffin_zero | rewrite FR_zero; reflexivity]. Qed.
Lemma isnatf_one : isnatf 1%float 1.
Proof.
  destruct (float_of_Z_exact 1) as [F E]; [lia|]. split; [exact F|]. exact E.
Qed.

Theorem fsum_counter_exact (l : list PrimFloat.float) (cs : list nat) : Forall2 isnatf l cs ->
  (Z.of_nat (list_sum cs) <= 2 ^ 53)%Z ->
  ffin (fsum l) /\ FR (fsum l) = INR (list_sum cs).
Proof. intros HF Hb. apply (fold_fadd_counter_exact l cs HF 0%float 0%nat isnatf_zero Hb). Qed.

(* a counter incremented n times by 1.0 *)
Corollary count_by_one_exact (n : nat) : (Z.of_nat n <= 2 ^ 53)%Z ->
  ffin (fsum (repeat 1%float n)) /\ FR (fsum (repeat 1%float n)) = INR n.
Proof.
  intros H. assert (E : list_sum (repeat 1%nat n) = n).
  { induction n as [|n IH]; [reflexivity|]. cbn [repeat list_sum fold_right] in *.
    change (fold_right Nat.add 0%nat (repeat 1%nat n)) with (list_sum (repeat 1%nat n)). rewrite IH; lia. }
  destruct (fsum_counter_exact (repeat 1%float n) (repeat 1%nat n)) as [F G];
    [| rewrite E; exact H | rewrite E in G; split; assumption].
  clear. induction n; cbn [repeat]; constructor; [exact isnatf_one | assumption].
Qed.

(* T::from(count): exact below 2^53 *)
Lemma oofnat_exact c : (Z.of_nat c < 2 ^ 53)%Z -> isnatf (oofnat FOps c) c.
Proof.
  intros H. unfold oofnat. cbn [FOps oofZ]. destruct (float_of_Z_exact (Z.of_nat c)) as [F E]; [lia|].
  split; [exact F|]. rewrite E, INR_IZR_INZ. reflexivity.
Qed.

Lemma FR_SF x : FR x = SF2R radix2 (FloatOps.Prim2SF x).
Proof. unfold FR, Prim2B. apply B2R_SF2B. Qed.

Lemma FR_m1 : FR (-1)%float = -1.
Proof.
  rewrite FR_SF. change (FloatOps.Prim2SF (-1)%float) with (S754_finite true 4503599627370496 (-52)).
  unfold SF2R, F2R. cbn [cond_Zopp Fnum Fexp].
  change (Z.neg 4503599627370496) with (- 4503599627370496)%Z. rewrite opp_IZR.
  assert (E : 4503599627370496 * bpow radix2 (-52) = 1).
  { change 4503599627370496 with (bpow radix2 52). rewrite <- bpow_plus. reflexivity. }
  lra.
Qed.
Lemma FR_two64 : FR Corr.two64 = bpow radix2 64.
Proof.
  rewrite FR_SF. change (FloatOps.Prim2SF Corr.two64) with (S754_finite false 4503599627370496 12).
  unfold SF2R, F2R. cbn [cond_Zopp Fnum Fexp].
  change (IZR (Z.pos 4503599627370496)) with (bpow radix2 52). rewrite <- bpow_plus. reflexivity.
Qed.

Lemma fltb_true x y : ffin x -> ffin y -> FR x < FR y -> PrimFloat.ltb x y = true.
Proof.
  rewrite !ffin_B. unfold FR. intros Hx Hy H. rewrite ltb_equiv, (Bltb_correct prec emax) by assumption.
  apply Rlt_bool_true, H.
Qed.

Lemma float_trunc_nat v c : FR v = INR c -> float_trunc_Z v = Z.of_nat c.
Proof.
  rewrite FR_SF. unfold float_trunc_Z. change Prim2SF with FloatOps.Prim2SF.
  destruct (FloatOps.Prim2SF v) as [s|s| |s m e]; cbn [SF2R].
  1-3: intros H; symmetry in H; change 0 with (INR 0) in H; apply INR_eq in H; subst c; reflexivity.
  unfold F2R. cbn [Fnum Fexp]. intros H.
  pose proof (pos_INR c) as Hc. pose proof (bpow_gt_0 radix2 e) as He.
  destruct s; cbn [cond_Zopp] in H.
  { exfalso. change (- Z.pos m)%Z with (Z.neg m) in H. assert (IZR (Z.neg m) < 0) by (apply IZR_lt; lia).
    assert (0 < - IZR (Z.neg m) * bpow radix2 e) by (apply Rmult_lt_0_compat; lra). lra. }
  rewrite INR_IZR_INZ in H.
  destruct (Z.leb_spec 0 e) as [E|E].
  - rewrite <- IZR_Zpower in H by exact E. rewrite <- mult_IZR in H. apply eq_IZR in H. exact H.
  - assert (H' : IZR (Z.pos m) = IZR (Z.of_nat c) * bpow radix2 (- e)).
    { rewrite <- H, Rmult_assoc, <- bpow_plus. replace (e + - e)%Z with 0%Z by lia. simpl. ring. }
    rewrite <- IZR_Zpower in H' by lia. rewrite <- mult_IZR in H'. apply eq_IZR in H'.
    rewrite H'. apply Z.div_mul. change (Z.pow_pos 2) with (Z.pow 2) || idtac. 
    apply Z.pow_nonzero; lia.
Qed.

(* num-traits to_usize of an integer-valued f64 below 2^64 is that integer *)
Lemma f_to_usize_nat v c : isnatf v c -> (Z.of_nat c < 2 ^ 64)%Z -> Corr.f_to_usize v = Some c.
Proof.
  intros [F E] H. unfold Corr.f_to_usize.
  rewrite (fltb_true (-1)%float v), (fltb_true v Corr.two64); try assumption; try reflexivity.
  - cbn [andb]. rewrite (float_trunc_nat v c E), Nat2Z.id. reflexivity.
  - rewrite E, FR_two64, INR_IZR_INZ. change (bpow radix2 64) with (IZR (2 ^ 64)). apply IZR_lt, H.
  - rewrite FR_m1, E. pose proof (pos_INR c). lra.
Qed.

Lemma u64_small : u64 <= / 1024.
Proof.
  rewrite u64_eq. apply Rinv_le_contravar; [lra|].
  replace 1024 with (2 ^ 10) by (simpl; lra). apply Rle_pow; [lra | lia].
Qed.

(* ---------------- priors: count / n ---------------- *)
Lemma prior_quotient_float c n : (0 < n)%nat -> (c <= n)%nat -> (Z.of_nat n < 2 ^ 53)%Z ->
  let q := PrimFloat.div (oofnat FOps c) (oofnat FOps n) in
  ffin q /\ FR q = rnd64 (INR c / INR n) /\ Rabs (FR q - INR c / INR n) <= u64 * (INR c / INR n).
Proof.
  intros Hn Hc Hb q.
  destruct (oofnat_exact c) as [Fc Ec]; [lia|]. destruct (oofnat_exact n Hb) as [Fn En].
  assert (Hn0 : 0 < INR n) by (apply lt_0_INR; exact Hn).
  assert (Hc0 : 0 <= INR c) by apply pos_INR.
  assert (Hcn : INR c <= INR n) by (apply le_INR; exact Hc).
  assert (Hq0 : 0 <= INR c / INR n) by (apply Rmult_le_pos; [lra | apply Rlt_le, Rinv_0_lt_compat; lra]).
  assert (Hq1 : INR c / INR n <= 1).
  { apply (Rmult_le_reg_r (INR n)); [lra|]. unfold Rdiv. rewrite Rmult_assoc, Rinv_l by lra. lra. }
  destruct (fdiv_small (oofnat FOps c) (oofnat FOps n) Fc Fn) as [Fq Eq].
  - rewrite En. lra.
  - rewrite Ec, En, Rabs_pos_eq by exact Hq0. exact Hq1.
  - rewrite Ec, En in Eq. fold q in Fq, Eq. split; [exact Fq|]. split; [exact Eq|]. rewrite Eq.
    destruct (Nat.eq_dec c 0) as [->|Hc1].
    + cbn [INR]. unfold Rdiv. rewrite Rmult_0_l, rnd64_0, Rminus_0_r, Rabs_R0. lra.
    + pose proof (rnd64_err_normal (INR c / INR n)) as G. rewrite Rabs_pos_eq in G by exact Hq0. apply G.
      apply Rle_trans with (bpow radix2 (-53)); [apply bpow_le; lia|].
      assert (H1 : 1 <= INR c) by (change 1 with (INR 1); apply le_INR; lia).
      assert (Hn53 : INR n <= bpow radix2 53) by (apply INR_le_bpow53; lia).
      change (-53)%Z with (- (53))%Z. rewrite bpow_opp.
      apply Rle_trans with (/ INR n); [apply Rinv_le_contravar; lra|].
      unfold Rdiv. rewrite <- (Rmult_1_l (/ INR n)) at 1.
      apply Rmult_le_compat_r; [apply Rlt_le, Rinv_0_lt_compat; lra | lra].
Qed.

(* ---------------- the smoothed ratio (count + alpha) / (total + alpha * m) ---------------- *)
(* four roundings: the numerator's addition, alpha * m, the denominator's addition, the division *)
Lemma ratio_real (A B n d q u e : R) : 0 < A -> 0 < B -> 0 <= u <= / 1024 ->
  Rabs (n - A) <= u * A -> Rabs (d - B) <= (2 * u + u * u) * B -> Rabs (q - n / d) <= u * Rabs (n / d) + e ->
  Rabs (q - A / B) <= 5 * u * (A / B) + e.
Proof.
  intros HA HB Hu Hn Hd Hq.
  apply Rabs_le_inv in Hn. apply Rabs_le_inv in Hd.
  assert (He2 : 0 <= 2 * u + u * u <= / 256) by nra.
  assert (Hd0 : 0 < d).
  { assert ((2 * u + u * u) * B <= / 256 * B) by (apply Rmult_le_compat_r; lra). lra. }
  assert (Hn0 : 0 < n).
  { assert (u * A <= / 1024 * A) by (apply Rmult_le_compat_r; lra). lra. }
  set (r := A / B). assert (Hr : A = r * B) by (unfold r; field; lra).
  assert (Hr0 : 0 < r) by (unfold r; apply Rdiv_lt_0_compat; lra).
  set (t := n / d) in *. assert (Ht : n = t * d) by (unfold t; field; lra).
  assert (Ht0 : 0 < t) by (unfold t; apply Rdiv_lt_0_compat; lra).
  rewrite (Rabs_pos_eq t) in Hq by lra.
  (* t (1 - e2) <= r (1 + u)  and  r (1 - u) <= t (1 + e2) *)
  assert (U1 : t * (1 - (2 * u + u * u)) <= r * (1 + u)).
  { apply (Rmult_le_reg_r B); [lra|]. 
    apply Rle_trans with (t * d); [|rewrite <- Ht, Hr in *; nra].
    assert (B * (1 - (2 * u + u * u)) <= d) by nra. nra. }
  assert (L1 : r * (1 - u) <= t * (1 + (2 * u + u * u))).
  { apply (Rmult_le_reg_r B); [lra|].
    apply Rle_trans with (t * d); [rewrite <- Ht, Hr in *; nra|].
    assert (d <= B * (1 + (2 * u + u * u))) by nra. nra. }
  apply Rabs_le_inv in Hq. apply Rabs_le.
  assert (U2 : t * (1 + u) <= r * (1 + 5 * u)).
  { assert (0 < 1 - (2 * u + u * u)) by nra.
    apply (Rmult_le_reg_r (1 - (2 * u + u * u))); [lra|].
    apply Rle_trans with (r * (1 + u) * (1 + u)); [nra|].
    assert ((1 + u) * (1 + u) <= (1 + 5 * u) * (1 - (2 * u + u * u))) by nra. nra. }
  assert (L2 : r * (1 - 5 * u) <= t * (1 - u)).
  { apply (Rmult_le_reg_r (1 + (2 * u + u * u))); [nra|].
    apply Rle_trans with (r * (1 - u) * (1 - u)); [|nra].
    assert ((1 - 5 * u) * (1 + (2 * u + u * u)) <= (1 - u) * (1 - u)) by nra. nra. }
  split; lra.
Qed.

Lemma fdiv_bounded x y M : ffin x -> ffin y -> FR y <> 0 -> fmt64 M -> M < bpow radix2 1024 ->
  Rabs (FR x / FR y) <= M -> ffin (x / y)%float /\ FR (x / y)%float = rnd64 (FR x / FR y).
Proof.
  rewrite !ffin_B. unfold FR. intros Hx Hy Hnz FM HM Hq. rewrite div_equiv.
  generalize (Bdiv_correct prec emax Hprec Hmax mode_NE (Prim2B x) (Prim2B y) Hnz).
  pose proof (rnd64_abs_le _ _ FM Hq) as Hr. unfold rnd64 in Hr.
  rewrite Rlt_bool_true.
  - intros (P & Q & _). split; [rewrite Q; exact Hx | exact P].
  - eapply Rle_lt_trans; [exact Hr | exact HM].
Qed.

(* only finite floats have a non-zero value *)
Lemma FR_nonzero_ffin x : FR x <> 0 -> ffin x.
Proof. rewrite ffin_B. unfold FR. destruct (Prim2B x); cbn; intros H; try reflexivity; exfalso; apply H; reflexivity. Qed.

Section Ratio.
  Variables (cf nf mf alpha : PrimFloat.float) (c n m : nat).
  Hypothesis Hc : isnatf cf c.
  Hypothesis Hn : isnatf nf n.
  Hypothesis Hm : isnatf mf m.
  Hypothesis Hcb : (Z.of_nat c < 2 ^ 53)%Z.
  Hypothesis Hnb : (Z.of_nat n < 2 ^ 53)%Z.
  Hypothesis Hmb : (Z.of_nat m < 2 ^ 53)%Z.
  Hypothesis Hm1 : (1 <= m)%nat.
  Hypothesis Fa : ffin alpha.
  Hypothesis Ha1 : bpow radix2 (-1022) <= FR alpha.
  Hypothesis Ha2 : FR alpha <= bpow radix2 53.

  Let num := PrimFloat.add cf alpha.
  Let prod := PrimFloat.mul alpha mf.
  Let den := PrimFloat.add nf prod.
  Let A := INR c + FR alpha.
  Let B := INR n + FR alpha * INR m.

  Lemma ratio_parts :
    0 < A /\ 0 < B /\ ffin num /\ ffin den /\ 0 < FR den /\
    Rabs (FR num - A) <= u64 * A /\ Rabs (FR den - B) <= (2 * u64 + u64 * u64) * B.
  Proof.
    destruct Hc as [Fc Ec], Hn as [Fn En], Hm as [Fm Em].
    pose proof (bpow_gt_0 radix2 (-1022)) as Hpos. pose proof u64_pos as Hu. pose proof u64_small as Hus.
    pose proof (pos_INR c) as Hc0. pose proof (pos_INR n) as Hn0.
    assert (Hm0 : 1 <= INR m) by (change 1 with (INR 1); apply le_INR; exact Hm1).
    assert (Hc53 : INR c <= bpow radix2 53) by (apply INR_le_bpow53; lia).
    assert (Hn53 : INR n <= bpow radix2 53) by (apply INR_le_bpow53; lia).
    assert (Hm53 : INR m <= bpow radix2 53) by (apply INR_le_bpow53; lia).
    assert (HA : 0 < A) by (unfold A; lra).
    assert (Hp0 : bpow radix2 (-1022) <= FR alpha * INR m) by nra.
    assert (HB : 0 < B) by (unfold B; lra).
    (* numerator *)
    destruct (fadd_bounded cf alpha (bpow radix2 54) Fc Fa) as [Fnum Enum].
    { apply fmt64_bpow; lia. } { apply bpow_lt; lia. }
    { rewrite Ec, Rabs_pos_eq by lra. change 54%Z with (53 + 1)%Z. rewrite bpow_plus. simpl (bpow radix2 1). lra. }
    fold num in Fnum, Enum.
    assert (Nerr : Rabs (FR num - A) <= u64 * A).
    { pose proof (rnd64_add_err (FR cf) (FR alpha) (fmt64_FR _) (fmt64_FR _)) as G.
      rewrite <- Enum, Ec in G. fold A in G. rewrite (Rabs_pos_eq A) in G by lra. exact G. }
    (* alpha * m *)
    assert (Hp106 : FR alpha * INR m <= bpow radix2 106).
    { change 106%Z with (53 + 53)%Z. rewrite bpow_plus. pose proof (bpow_gt_0 radix2 53). nra. }
    destruct (fmul_bounded alpha mf (bpow radix2 106) Fa Fm) as [Fprod Eprod].
    { apply fmt64_bpow; lia. } { apply bpow_lt; lia. }
    { rewrite Em, Rabs_pos_eq by lra. exact Hp106. }
    fold prod in Fprod, Eprod. rewrite Em in Eprod.
    assert (Perr : Rabs (FR prod - FR alpha * INR m) <= u64 * (FR alpha * INR m)).
    { rewrite Eprod. pose proof (rnd64_err_normal (FR alpha * INR m)) as G.
      rewrite Rabs_pos_eq in G by lra. apply G. exact Hp0. }
    assert (Pub : FR prod <= bpow radix2 106).
    { rewrite Eprod. pose proof (rnd64_abs_le (FR alpha * INR m) (bpow radix2 106)) as G.
      rewrite (Rabs_pos_eq (FR alpha * INR m)) in G by lra.
      eapply Rle_trans; [apply Rle_abs|]. apply G; [apply fmt64_bpow; lia | exact Hp106]. }
    apply Rabs_le_inv in Perr.
    assert (Pp : 0 < FR prod) by nra.
    (* denominator *)
    destruct (fadd_bounded nf prod (bpow radix2 107) Fn Fprod) as [Fden Eden].
    { apply fmt64_bpow; lia. } { apply bpow_lt; lia. }
    { rewrite En, Rabs_pos_eq by lra. change 107%Z with (106 + 1)%Z. rewrite bpow_plus. simpl (bpow radix2 1).
      assert (bpow radix2 53 <= bpow radix2 106) by (apply bpow_le; lia). lra. }
    fold den in Fden, Eden.
    pose proof (rnd64_add_err (FR nf) (FR prod) (fmt64_FR nf) (fmt64_FR prod)) as Derr.
    rewrite <- Eden, En in Derr. rewrite (Rabs_pos_eq (INR n + FR prod)) in Derr by lra.
    apply Rabs_le_inv in Derr.
    assert (Dpos : 0 < FR den) by nra.
    split; [exact HA|]. split; [exact HB|]. split; [exact Fnum|]. split; [exact Fden|].
    split; [exact Dpos|]. split; [exact Nerr|].
    apply Rabs_le. unfold B. nra.
  Qed.

  (* the argument of the logarithm: relative error 5u (first-order term 4u), plus one underflow term *)
  Theorem smoothed_ratio_error : ffin (PrimFloat.div num den) ->
    0 < A / B /\
    Rabs (FR (PrimFloat.div num den) - A / B) <= 5 * u64 * (A / B) + eta64.
  Proof.
    intros Fq. destruct ratio_parts as (HA & HB & Fnum & Fden & Dpos & Nerr & Derr).
    split; [apply Rdiv_lt_0_compat; assumption|].
    apply (ratio_real A B (FR num) (FR den) _ u64 eta64); try assumption.
    - split; [apply Rlt_le, u64_pos | exact u64_small].
    - apply fdiv_error; [exact Fden | lra | exact Fq].
  Qed.

  (* count <= total: the quotient is at most about 1, the division cannot overflow *)
  Theorem smoothed_ratio_finite : (c <= n)%nat -> ffin (PrimFloat.div num den).
  Proof.
    intros Hle. destruct ratio_parts as (HA & HB & Fnum & Fden & Dpos & Nerr & Derr).
    apply Rabs_le_inv in Nerr. apply Rabs_le_inv in Derr.
    pose proof u64_pos as Hu. pose proof u64_small as Hus.
    assert (HAB : A <= B).
    { unfold A, B. assert (INR c <= INR n) by (apply le_INR; exact Hle).
      assert (1 <= INR m) by (change 1 with (INR 1); apply le_INR; exact Hm1).
      assert (0 < FR alpha) by (pose proof (bpow_gt_0 radix2 (-1022)); lra). nra. }
    assert (He2 : 0 <= 2 * u64 + u64 * u64 <= / 256) by nra.
    assert (Hd : B * (1 - / 256) <= FR den).
    { assert ((2 * u64 + u64 * u64) * B <= / 256 * B) by (apply Rmult_le_compat_r; lra). lra. }
    assert (Hn' : FR num <= A * (1 + / 1024)).
    { assert (u64 * A <= / 1024 * A) by (apply Rmult_le_compat_r; lra). lra. }
    assert (Hn0 : 0 <= FR num).
    { assert (u64 * A <= / 1024 * A) by (apply Rmult_le_compat_r; lra). lra. }
    apply (fdiv_bounded num den (bpow radix2 1) Fnum Fden); [lra | apply fmt64_bpow; lia | apply bpow_lt; lia |].
    rewrite Rabs_pos_eq by (apply Rmult_le_pos; [exact Hn0 | apply Rlt_le, Rinv_0_lt_compat, Dpos]).
    simpl (bpow radix2 1). apply (Rmult_le_reg_r (FR den)); [exact Dpos|].
    unfold Rdiv. rewrite Rmult_assoc, Rinv_l by lra. lra.
  Qed.
End Ratio.

(* ---------------- what the fitted models store, for any scalar type ---------------- *)
Section Inv.
  Context {T : Type} (O : Ops T).

  Lemma class_priors_user_gen (user : list T) counts n pri :
    class_priors O (Some user) counts n = Some pri -> pri = user /\ length user = length counts.
  Proof.
    unfold class_priors. destruct (Nat.eqb_spec (length user) (length counts)) as [E|]; [|discriminate].
    intros [= <-]. split; [reflexivity | exact E].
  Qed.

  Lemma gaussian_fit_inv_gen x y user m :
    gaussian_fit O x y user = Some m ->
    let classes := fst (unique_with_indices y) in
    let indices := snd (unique_with_indices y) in
    let K := length classes in
    shape_ok x y = true /\
    m.(g_classes) = classes /\
    m.(g_count) = count_classes K indices /\
    class_priors O user (count_classes K indices) (length x) = Some m.(g_priors) /\
    m.(g_theta) = map (fun data => map (col_mean O data) (seq 0 (ncols x))) (split_rows K x indices).
  Proof.
    unfold gaussian_fit. destruct (shape_ok x y) eqn:Hs; [|discriminate].
    destruct (unique_with_indices y) as [classes indices] eqn:Hu. cbn [fst snd].
    destruct (class_priors O user (count_classes (length classes) indices) (length x)) as [pri|] eqn:Hp;
      [|discriminate].
    intros [= <-]. cbn. repeat split; auto.
  Qed.

  Variable to_usize : T -> option nat.

  Lemma multinomial_fit_inv_gen x y alpha user m :
    multinomial_fit O to_usize x y alpha user = Some m ->
    let classes := fst (unique_with_indices y) in
    let indices := snd (unique_with_indices y) in
    let K := length classes in
    exists xc,
      shape_ok x y = true /\ convert to_usize x = Some xc /\
      m.(c_classes) = classes /\
      m.(c_count) = count_classes K indices /\
      class_priors O user (count_classes K indices) (length x) = Some m.(c_priors) /\
      m.(c_fcount) = count_features K (ncols x) xc indices /\
      m.(c_flp) = map (fun cnts => map (fun c => smoothed_log O alpha c (sum_nat cnts) (ncols x)) cnts)
                      (count_features K (ncols x) xc indices).
  Proof.
    unfold multinomial_fit. destruct (shape_ok x y) eqn:Hs; [|discriminate].
    destruct (alpha_ok O alpha) eqn:Ha; [|discriminate]. cbn [andb].
    destruct (unique_with_indices y) as [classes indices] eqn:Hu. cbn [fst snd].
    destruct (class_priors O user (count_classes (length classes) indices) (length x)) as [pri|] eqn:Hp;
      [|discriminate].
    destruct (convert to_usize x) as [xc|] eqn:Hx; [|discriminate].
    intros [= <-]. exists xc. cbn. repeat split; auto.
  Qed.

  Lemma bernoulli_fit_inv_gen x0 y alpha user th m :
    bernoulli_fit O to_usize x0 y alpha user th = Some m ->
    let x := binarize O th x0 in
    let classes := fst (unique_with_indices y) in
    let indices := snd (unique_with_indices y) in
    let K := length classes in
    exists xc,
      shape_ok x y = true /\ convert to_usize x = Some xc /\
      m.(c_classes) = classes /\
      m.(c_count) = count_classes K indices /\
      class_priors O user (count_classes K indices) (length x) = Some m.(c_priors) /\
      m.(c_fcount) = count_features K (ncols x) xc indices /\
      m.(c_flp) = map (fun cc => map (fun c => bernoulli_log O alpha c (snd cc)) (fst cc))
                      (zip (count_features K (ncols x) xc indices) (count_classes K indices)).
  Proof.
    unfold bernoulli_fit. cbn zeta. destruct (shape_ok (binarize O th x0) y) eqn:Hs; [|discriminate].
    destruct (alpha_ok O alpha) eqn:Ha; [|discriminate]. cbn [andb].
    destruct (unique_with_indices y) as [classes indices] eqn:Hu. cbn [fst snd].
    destruct (class_priors O user (count_classes (length classes) indices)
                           (length (binarize O th x0))) as [pri|] eqn:Hp; [|discriminate].
    destruct (convert to_usize (binarize O th x0)) as [xc|] eqn:Hx; [|discriminate].
    intros [= <-]. exists xc. cbn. repeat split; auto.
  Qed.

  (* the argument of the logarithm, in the model's order of operations *)
  Definition smoothed_ratio (alpha : T) (count denom_count mult : nat) : T :=
    O.(odiv) (O.(oadd) (oofnat O count) alpha)
             (O.(oadd) (oofnat O denom_count) (O.(omul) alpha (oofnat O mult))).
  Definition bernoulli_ratio (alpha : T) (count class_count : nat) : T :=
    O.(odiv) (O.(oadd) (oofnat O count) alpha)
             (O.(oadd) (oofnat O class_count) (O.(omul) alpha (two O))).
  Lemma smoothed_log_ratio alpha c n p : smoothed_log O alpha c n p = O.(oln) (smoothed_ratio alpha c n p).
  Proof. reflexivity. Qed.
  Lemma bernoulli_log_ratio alpha c n : bernoulli_log O alpha c n = O.(oln) (bernoulli_ratio alpha c n).
  Proof. reflexivity. Qed.
End Inv.

Lemma filter_length_le' {A} (f : A -> bool) l : (length (filter f l) <= length l)%nat.
Proof. induction l as [|a l IH]; cbn; [lia|]. destruct (f a); cbn; lia. Qed.

(* ---------------- class counts and priors at binary64 ---------------- *)
(* the class list, the class counts (integers: `usize` in the code, `nat` in the model) and the
   prior computation of the three fitted variants at binary64: the counts are the exact integer counts
   of C11_class_counts, whatever the scalar type *)
Theorem class_count_float_exact (y : list Z) :
  let classes := fst (unique_with_indices y) in
  let counts := count_classes (length classes) (snd (unique_with_indices y)) in
  (forall x user m, gaussian_fit FOps x y user = Some m ->
     length x = length y /\ m.(g_classes) = classes /\ m.(g_count) = counts /\
     class_priors FOps user counts (length y) = Some m.(g_priors)) /\
  (forall tu x alpha user m, multinomial_fit FOps tu x y alpha user = Some m ->
     length x = length y /\ m.(c_classes) = classes /\ m.(c_count) = counts /\
     class_priors FOps user counts (length y) = Some m.(c_priors)) /\
  (forall tu x0 alpha user th m, bernoulli_fit FOps tu x0 y alpha user th = Some m ->
     length x0 = length y /\ m.(c_classes) = classes /\ m.(c_count) = counts /\
     class_priors FOps user counts (length y) = Some m.(c_priors)) /\
  (forall k, (k < length classes)%nat ->
     nth k counts 0%nat = count_label y (nth k classes 0%Z) /\ (nth k counts 0 <= length y)%nat) /\
  ((Z.of_nat (length y) < 2 ^ 53)%Z -> forall k, (k < length classes)%nat ->
     ffin (oofnat FOps (nth k counts 0%nat)) /\
     FR (oofnat FOps (nth k counts 0%nat)) = INR (count_label y (nth k classes 0%Z))).
Proof.
  cbn zeta.
  assert (Hle : forall k, (k < length (fst (unique_with_indices y)))%nat ->
     nth k (count_classes (length (fst (unique_with_indices y))) (snd (unique_with_indices y))) 0%nat
       = count_label y (nth k (fst (unique_with_indices y)) 0%Z) /\
     (nth k (count_classes (length (fst (unique_with_indices y))) (snd (unique_with_indices y))) 0 <= length y)%nat).
  { intros k Hk. split; [apply class_count_labels; exact Hk|].
    rewrite class_count_labels by exact Hk. unfold count_label. apply filter_length_le'. }
  split; [|split; [|split; [|split]]].
  - intros x user m H. destruct (gaussian_fit_inv_gen FOps x y user m H) as (Hs & Hc & Hn & Hp & _).
    destruct (shape_ok_inv x y Hs) as [Hl _]. rewrite Hl in Hp. auto.
  - intros tu x alpha user m H.
    destruct (multinomial_fit_inv_gen FOps tu x y alpha user m H) as (xc & Hs & _ & Hc & Hn & Hp & _).
    destruct (shape_ok_inv x y Hs) as [Hl _]. rewrite Hl in Hp. auto.
  - intros tu x0 alpha user th m H.
    destruct (bernoulli_fit_inv_gen FOps tu x0 y alpha user th m H) as (xc & Hs & _ & Hc & Hn & Hp & _).
    destruct (shape_ok_inv _ y Hs) as [Hl _]. rewrite Hl in Hp.
    assert (Hb : length (binarize FOps th x0) = length x0) by (destruct th; cbn [binarize]; [apply map_length | reflexivity]).
    rewrite <- Hb. auto.
  - exact Hle.
  - intros Hb k Hk. destruct (Hle k Hk) as [E L]. rewrite <- E. apply oofnat_exact. lia.
Qed.

(* default priors: every prior is the correctly rounded quotient count / n *)
Theorem class_priors_float (counts : list nat) (n : nat) :
  (0 < n)%nat -> (Z.of_nat n < 2 ^ 53)%Z -> (forall k, (k < length counts)%nat -> (nth k counts 0 <= n)%nat) ->
  exists pri, class_priors FOps None counts n = Some pri /\ length pri = length counts /\
    forall k, (k < length counts)%nat ->
      let q := INR (nth k counts 0%nat) / INR n in
      ffin (nth k pri 0%float) /\ FR (nth k pri 0%float) = rnd64 q /\
      Rabs (FR (nth k pri 0%float) - q) <= u64 * q.
Proof.
  intros Hn Hb Hle. eexists. split; [reflexivity|]. split; [apply map_length|].
  intros k Hk. cbv zeta. rewrite (nth_map_lt _ _ k _ 0%nat) by exact Hk. cbn [FOps odiv].
  apply prior_quotient_float; auto.
Qed.

Theorem priors_float (y : list Z) : (0 < length y)%nat -> (Z.of_nat (length y) < 2 ^ 53)%Z ->
  let classes := fst (unique_with_indices y) in
  let counts := count_classes (length classes) (snd (unique_with_indices y)) in
  exists pri, class_priors FOps None counts (length y) = Some pri /\ length pri = length classes /\
    forall k, (k < length classes)%nat ->
      let q := INR (count_label y (nth k classes 0%Z)) / INR (length y) in
      ffin (nth k pri 0%float) /\ FR (nth k pri 0%float) = rnd64 q /\
      Rabs (FR (nth k pri 0%float) - q) <= u64 * q.
Proof.
  intros Hn Hb. cbn zeta.
  destruct (class_count_float_exact y) as (_ & _ & _ & Hle & _). cbn zeta in Hle.
  destruct (class_priors_float (count_classes (length (fst (unique_with_indices y))) (snd (unique_with_indices y)))
              (length y) Hn Hb) as (pri & Hp & Hl & Hk).
  - intros k Hk. rewrite count_classes_length in Hk. apply (Hle k Hk).
  - exists pri. split; [exact Hp|]. rewrite count_classes_length in Hl, Hk. split; [exact Hl|].
    intros k Hk'. specialize (Hk k Hk'). cbv zeta in Hk. rewrite (proj1 (Hle k Hk')) in Hk. exact Hk.
Qed.

(* ---------------- feature counts ---------------- *)
(* v is a finite float whose value is the natural number c < 2^64 (what `to_usize` accepts exactly) *)
Definition is_count (v : PrimFloat.float) (c : nat) : Prop :=
  ffin v /\ FR v = INR c /\ (Z.of_nat c < 2 ^ 64)%Z.

Lemma all_some_Forall2 {A B} (f : A -> option B) l l' :
  Forall2 (fun a b => f a = Some b) l l' -> all_some (map f l) = Some l'.
Proof. induction 1 as [|a b l l' H HF IH]; cbn [map all_some]; [reflexivity|]. rewrite H, IH. reflexivity. Qed.

Lemma convert_counts x xc : Forall2 (Forall2 is_count) x xc -> convert Corr.f_to_usize x = Some xc.
Proof.
  intros H. unfold convert. apply all_some_Forall2.
  induction H as [|row rowc x xc Hr HF IH]; constructor; [|exact IH].
  apply all_some_Forall2. induction Hr as [|v c r rc Hv Hr IHr]; constructor; [|exact IHr].
  destruct Hv as (F & E & B). apply f_to_usize_nat; [split; assumption | exact B].
Qed.

Lemma nth_le_list_sum l j : (nth j l 0 <= list_sum l)%nat.
Proof.
  revert j. induction l as [|a l IH]; intros [|j]; cbn [nth list_sum fold_right]; try lia.
  change (fold_right Nat.add 0%nat l) with (list_sum l). specialize (IH j). lia.
Qed.

Lemma bpow53_pow : bpow radix2 53 = 2 ^ 53.
Proof. change (bpow radix2 53) with (IZR (2 ^ Z.of_nat 53)). rewrite <- pow_IZR. reflexivity. Qed.

Lemma alpha_range alpha : / 2 ^ 1022 <= FR alpha <= 2 ^ 53 ->
  ffin alpha /\ bpow radix2 (-1022) <= FR alpha /\ FR alpha <= bpow radix2 53.
Proof.
  intros [H1 H2]. rewrite C03.ProofsFloat2.bpow_m1022, bpow53_pow. split; [|split; assumption].
  apply FR_nonzero_ffin. assert (0 < / 2 ^ 1022) by (apply Rinv_0_lt_compat, pow_lt; lra). lra.
Qed.

Theorem multinomial_feature_count_float_exact x y alpha user m xc :
  multinomial_fit FOps Corr.f_to_usize x y alpha user = Some m ->
  Forall2 (Forall2 is_count) x xc ->
  forall k, (k < length m.(c_classes))%nat ->
    let cnts := nth k m.(c_fcount) [] in
    length cnts = ncols x /\
    forall j, (j < ncols x)%nat ->
      nth j cnts 0%nat = list_sum (col 0%nat j (class_rows xc y (nth k m.(c_classes) 0%Z))).
Proof.
  intros Hfit Hx k Hk.
  destruct (multinomial_fit_inv_gen FOps _ x y alpha user m Hfit) as (xc' & Hs & Hc' & Hc & _ & _ & Hfc & _).
  rewrite (convert_counts x xc Hx) in Hc'. injection Hc' as <-.
  rewrite Hc in *. cbn zeta. rewrite Hfc. split; [apply count_features_row_length; exact Hk|].
  intros j Hj. rewrite count_features_nth by assumption. f_equal. f_equal. apply rows_by_index. exact Hk.
Qed.

Theorem multinomial_ratio_float_error tu x y alpha user m :
  multinomial_fit FOps tu x y alpha user = Some m ->
  forall k j, (k < length m.(c_classes))%nat -> (j < ncols x)%nat ->
    let cnts := nth k m.(c_fcount) [] in
    let N := list_sum cnts in let c := nth j cnts 0%nat in let p := ncols x in
    let q := smoothed_ratio FOps alpha c N p in
    let r := (INR c + FR alpha) / (INR N + FR alpha * INR p) in
    nth j (nth k m.(c_flp) []) 0%float = fln q /\
    ((Z.of_nat N < 2 ^ 53)%Z -> (Z.of_nat p < 2 ^ 53)%Z -> / 2 ^ 1022 <= FR alpha <= 2 ^ 53 ->
     ffin q /\ 0 < r /\ Rabs (FR q - r) <= 5 * u64 * r + eta64).
Proof.
  intros Hfit k j Hk Hj.
  destruct (multinomial_fit_inv_gen FOps _ x y alpha user m Hfit) as (xc & _ & _ & Hc & _ & _ & Hfc & Hflp).
  rewrite Hc in *. cbn zeta. rewrite Hflp, Hfc.
  set (fc := count_features _ (ncols x) xc _).
  assert (Hlen : length (nth k fc []) = ncols x) by (apply count_features_row_length; exact Hk).
  split.
  - rewrite (nth_map_lt _ _ k _ []) by (unfold fc; rewrite count_features_length; exact Hk).
    rewrite (nth_map_lt _ _ j _ 0%nat) by (rewrite Hlen; exact Hj).
    rewrite sum_nat_list_sum. reflexivity.
  - intros HN Hp Ha. destruct (alpha_range alpha Ha) as (Fa & A1 & A2).
    set (cnts := nth k fc []) in *.
    pose proof (nth_le_list_sum cnts j) as Hle.
    assert (Hcb : (Z.of_nat (nth j cnts 0%nat) < 2 ^ 53)%Z) by lia.
    assert (Hp1 : (1 <= ncols x)%nat) by lia.
    pose proof (smoothed_ratio_finite _ _ _ alpha _ _ _ (oofnat_exact _ Hcb) (oofnat_exact _ HN) (oofnat_exact _ Hp)
                  Hcb HN Hp Hp1 Fa A1 A2 Hle) as Fq.
    split; [exact Fq|].
    exact (smoothed_ratio_error _ _ _ alpha _ _ _ (oofnat_exact _ Hcb) (oofnat_exact _ HN) (oofnat_exact _ Hp)
                  Hcb HN Hp Hp1 Fa A1 A2 Fq).
Qed.

(* ---------------- Bernoulli ---------------- *)
Lemma isnatf_two : isnatf (two FOps) 2.
Proof. unfold two. cbn [FOps oadd o1]. apply (fadd_nat_exact 1%float 1%float 1 1 isnatf_one isnatf_one). cbn. lia. Qed.

(* binarisation produces 0/1: exactly convertible counts, for any finite or non-finite input *)
Lemma binarize_counts th (x0 : list (list PrimFloat.float)) :
  let xc := map (map (fun v => if PrimFloat.ltb th v then 1%nat else 0%nat)) x0 in
  Forall2 (Forall2 is_count) (binarize FOps (Some th) x0) xc /\ binary xc.
Proof.
  cbn zeta. split.
  - cbn [binarize FOps oltb o0 o1]. induction x0 as [|row x0 IH]; cbn [map]; constructor; [|exact IH].
    induction row as [|v row IHr]; cbn [map]; constructor; [|exact IHr].
    destruct (PrimFloat.ltb th v).
    + destruct isnatf_one as [F E]. split; [exact F|]. split; [exact E | cbn; lia].
    + destruct isnatf_zero as [F E]. split; [exact F|]. split; [exact E | cbn; lia].
  - intros row Hrow v Hv. apply in_map_iff in Hrow as (r0 & <- & _). apply in_map_iff in Hv as (w & <- & _).
    destruct (PrimFloat.ltb th w); lia.
Qed.

Theorem bernoulli_feature_count_float_exact x0 y alpha user th m xc :
  bernoulli_fit FOps Corr.f_to_usize x0 y alpha user th = Some m ->
  let x := binarize FOps th x0 in
  Forall2 (Forall2 is_count) x xc ->
  forall k j, (k < length m.(c_classes))%nat -> (j < ncols x)%nat ->
    nth k m.(c_count) 0%nat = count_label y (nth k m.(c_classes) 0%Z) /\
    nth j (nth k m.(c_fcount) []) 0%nat = list_sum (col 0%nat j (class_rows xc y (nth k m.(c_classes) 0%Z))) /\
    (binary xc -> (nth j (nth k m.(c_fcount) []) 0 <= nth k m.(c_count) 0)%nat).
Proof.
  intros Hfit x Hx k j Hk Hj.
  destruct (bernoulli_fit_inv_gen FOps _ x0 y alpha user th m Hfit) as (xc' & Hs & Hc' & Hc & Hcnt & _ & Hfc & _).
  fold x in Hs, Hc', Hfc. rewrite (convert_counts x xc Hx) in Hc'. injection Hc' as <-.
  destruct (shape_ok_inv _ y Hs) as [Hlen _].
  rewrite Hc in *.
  assert (Hnk : nth k (c_count m) 0%nat = count_label y (nth k (fst (unique_with_indices y)) 0%Z)).
  { rewrite Hcnt. apply class_count_labels. exact Hk. }
  assert (HN : nth j (nth k (c_fcount m) []) 0%nat
               = list_sum (col 0%nat j (class_rows xc y (nth k (fst (unique_with_indices y)) 0%Z)))).
  { rewrite Hfc. rewrite count_features_nth by assumption. f_equal. f_equal. apply rows_by_index. exact Hk. }
  split; [exact Hnk|]. split; [exact HN|].
  intros Hbin. rewrite HN, Hnk. rewrite <- (class_rows_length xc y).
  - apply binary_col_sum. exact Hbin.
  - rewrite <- Hlen. apply (convert_length Corr.f_to_usize x xc). apply convert_counts, Hx.
Qed.

Theorem bernoulli_ratio_float_error tu x0 y alpha user th m :
  bernoulli_fit FOps tu x0 y alpha user th = Some m ->
  forall k j, (k < length m.(c_classes))%nat -> (j < ncols (binarize FOps th x0))%nat ->
    let N := nth j (nth k m.(c_fcount) []) 0%nat in let n_k := nth k m.(c_count) 0%nat in
    let q := bernoulli_ratio FOps alpha N n_k in
    let r := (INR N + FR alpha) / (INR n_k + FR alpha * 2) in
    nth j (nth k m.(c_flp) []) 0%float = fln q /\
    ((Z.of_nat N < 2 ^ 53)%Z -> (Z.of_nat n_k < 2 ^ 53)%Z -> / 2 ^ 1022 <= FR alpha <= 2 ^ 53 ->
     ((N <= n_k)%nat -> ffin q) /\
     (ffin q -> 0 < r /\ Rabs (FR q - r) <= 5 * u64 * r + eta64)).
Proof.
  intros Hfit k j Hk Hj.
  destruct (bernoulli_fit_inv_gen FOps _ x0 y alpha user th m Hfit) as (xc & _ & _ & Hc & Hcnt & _ & Hfc & Hflp).
  rewrite Hc in *. cbn zeta.
  assert (Hrow : nth k (c_flp m) []
                 = map (fun c => bernoulli_log FOps alpha c (nth k (c_count m) 0%nat)) (nth k (c_fcount m) [])).
  { rewrite Hflp. rewrite (nth_map_lt _ _ k _ ([], 0%nat)).
    - rewrite nth_zip; [cbn [fst snd]; rewrite <- Hfc, <- Hcnt; reflexivity | |].
      + rewrite count_features_length. exact Hk.
      + rewrite count_classes_length. exact Hk.
    - rewrite zip_length_min, count_features_length, count_classes_length. lia. }
  assert (Hlenrow : length (nth k (c_fcount m) []) = ncols (binarize FOps th x0)).
  { rewrite Hfc. apply count_features_row_length. exact Hk. }
  split.
  - rewrite Hrow. rewrite (nth_map_lt _ _ j _ 0%nat) by (rewrite Hlenrow; exact Hj). reflexivity.
  - intros HN Hn Ha. destruct (alpha_range alpha Ha) as (Fa & A1 & A2).
    assert (H2 : (Z.of_nat 2 < 2 ^ 53)%Z) by (cbn; lia).
    assert (H21 : (1 <= 2)%nat) by lia.
    split.
    + intros Hle.
      exact (smoothed_ratio_finite _ _ _ alpha _ _ _ (oofnat_exact _ HN) (oofnat_exact _ Hn) isnatf_two
               HN Hn H2 H21 Fa A1 A2 Hle).
    + intros Fq.
      exact (smoothed_ratio_error _ _ _ alpha _ _ _ (oofnat_exact _ HN) (oofnat_exact _ Hn) isnatf_two
               HN Hn H2 H21 Fa A1 A2 Fq).
Qed.

(* ---------------- Gaussian: per-class mean = recursive sum of the class's column / class count ------ *)
Lemma col_mean_vmean (data : list (list PrimFloat.float)) j :
  col_mean FOps data j = C03.Model.vmean FOps (col 0%float j data).
Proof.
  unfold col_mean, C03.Model.vmean, C03.Model.vsum, col. rewrite map_length.
  rewrite (C03.ProofsFloat2.fold_left_map_r (oadd FOps) (fun row => nth j row (o0 FOps))). reflexivity.
Qed.

Theorem gaussian_mean_float_error x y user m :
  gaussian_fit FOps x y user = Some m ->
  forall k j, (k < length m.(g_classes))%nat -> (j < ncols x)%nat ->
    let rows := class_rows x y (nth k m.(g_classes) 0%Z) in
    let colf := col 0%float j rows in
    let n := length rows in
    let theta := nth j (nth k m.(g_theta) []) 0%float in
    n = nth k m.(g_count) 0%nat /\ n = count_label y (nth k m.(g_classes) 0%Z) /\
    theta = PrimFloat.div (fsum colf) (oofnat FOps n) /\
    ((Z.of_nat n < 2 ^ 53)%Z -> ffin theta ->
     let v := map FR colf in
     (0 < n)%nat /\ Forall ffin colf /\
     Rabs (FR theta - mean v) <= ((1 + u64) ^ n - 1) * (Rsumabs v / INR n) + eta64).
Proof.
  intros Hfit k j Hk Hj.
  destruct (gaussian_fit_inv_gen FOps x y user m Hfit) as (Hs & Hc & Hcnt & _ & Hth).
  destruct (shape_ok_inv x y Hs) as [Hlen Hpos].
  rewrite Hc in *. cbn zeta.
  set (classes := fst (unique_with_indices y)) in *.
  set (indices := snd (unique_with_indices y)) in *.
  assert (Hrows : nth k (split_rows (length classes) x indices) [] = class_rows x y (nth k classes 0%Z)).
  { rewrite split_rows_nth by exact Hk. apply rows_by_index. exact Hk. }
  assert (Hn : length (class_rows x y (nth k classes 0%Z)) = count_label y (nth k classes 0%Z))
    by (apply class_rows_length; exact Hlen).
  assert (Hth' : nth j (nth k (g_theta m) []) 0%float
                 = C03.Model.vmean FOps (col 0%float j (class_rows x y (nth k classes 0%Z)))).
  { rewrite Hth. rewrite (nth_map_lt _ _ k _ []) by (rewrite split_rows_length; exact Hk).
    rewrite (nth_map_lt _ _ j _ 0%nat) by (rewrite seq_length; exact Hj).
    rewrite seq_nth by exact Hj. cbn [plus]. rewrite Hrows. apply col_mean_vmean. }
  split; [rewrite Hcnt, Hn; symmetry; apply class_count_labels; exact Hk|].
  split; [exact Hn|]. split.
  - rewrite Hth'. unfold C03.Model.vmean, C03.Model.vsum, col. rewrite map_length. reflexivity.
  - intros Hb Hfin. cbv zeta. rewrite Hth' in *.
    set (colf := col 0%float j (class_rows x y (nth k classes 0%Z))) in *.
    assert (Hl : length colf = length (class_rows x y (nth k classes 0%Z))) by (unfold colf, col; apply map_length).
    rewrite <- Hl in Hb |- *.
    destruct (C03.ProofsFloat2.vmean_float_error colf Hb Hfin) as (H0 & HF & _ & HB).
    split; [exact H0|]. split; [exact HF|].
    unfold mean. rewrite map_length. exact HB.
Qed.

(* ---------------- a binary64 accumulator over a class's column of integer data ---------------- *)
Lemma class_rows_Forall2 {A B} (P : list A -> list B -> Prop) x xc (y : list Z) c :
  Forall2 P x xc -> Forall2 P (class_rows x y c) (class_rows xc y c).
Proof.
  unfold class_rows. intros H. revert y. induction H as [|r rc x xc Hr HF IH]; intros [|l y]; cbn [zip filter map];
    try constructor.
  cbn [snd]. destruct (Z.eqb c l); cbn [map fst]; [constructor; [exact Hr | apply IH] | apply IH].
Qed.

Lemma Forall2_nth {A B} (P : A -> B -> Prop) l l' d d' j : Forall2 P l l' -> P d d' -> P (nth j l d) (nth j l' d').
Proof.
  intros H Hd. revert j. induction H as [|a b l l' Hab HF IH]; intros [|j]; cbn [nth]; auto.
Qed.

Lemma col_Forall2 {A B} (P : A -> B -> Prop) d d' j rows rowsc : P d d' ->
  Forall2 (Forall2 P) rows rowsc -> Forall2 P (col d j rows) (col d' j rowsc).
Proof.
  intros Hd H. unfold col. induction H as [|r rc rows rowsc Hr HF IH]; cbn [map]; constructor; [|exact IH].
  apply Forall2_nth; assumption.
Qed.

Lemma is_count_isnatf : forall v c, is_count v c -> isnatf v c.
Proof. intros v c (F & E & _). split; assumption. Qed.

Lemma Forall2_impl {A B} (P Q : A -> B -> Prop) l l' : (forall a b, P a b -> Q a b) -> Forall2 P l l' -> Forall2 Q l l'.
Proof. intros H. induction 1; constructor; auto. Qed.

(* the column of class c in a matrix of integer-valued floats: accumulated in binary64 from 0 (as the
   Gaussian variant's mean does) it yields exactly the integer total the count-based variants
   accumulate in `usize`, while that total is at most 2^53 *)
Theorem class_column_float_sum_exact x xc (y : list Z) c j :
  Forall2 (Forall2 is_count) x xc ->
  let total := list_sum (col 0%nat j (class_rows xc y c)) in
  (Z.of_nat total <= 2 ^ 53)%Z ->
  ffin (fsum (col 0%float j (class_rows x y c))) /\
  FR (fsum (col 0%float j (class_rows x y c))) = INR total.
Proof.
  intros Hx total Hb. apply fsum_counter_exact; [|exact Hb].
  apply col_Forall2; [exact isnatf_zero|].
  apply class_rows_Forall2. eapply Forall2_impl; [|exact Hx].
  intros r rc Hr. eapply Forall2_impl; [|exact Hr]. exact is_count_isnatf.
Qed.

(* quotient of two integer-valued floats: one rounding, no underflow term *)
Lemma nat_quotient_float cf nf c n : isnatf cf c -> isnatf nf n -> (0 < n)%nat ->
  (Z.of_nat c <= 2 ^ 53)%Z -> (Z.of_nat n <= 2 ^ 53)%Z ->
  let q := PrimFloat.div cf nf in
  ffin q /\ FR q = rnd64 (INR c / INR n) /\ Rabs (FR q - INR c / INR n) <= u64 * (INR c / INR n).
Proof.
  intros [Fc Ec] [Fn En] Hn Hb Hnb q.
  assert (Hn1 : 1 <= INR n) by (change 1 with (INR 1); apply le_INR; lia).
  assert (Hc0 : 0 <= INR c) by apply pos_INR.
  assert (Hc53 : INR c <= bpow radix2 53) by (apply INR_le_bpow53; exact Hb).
  assert (Hi : 0 < / INR n) by (apply Rinv_0_lt_compat; lra).
  assert (Hq0 : 0 <= INR c / INR n) by (apply Rmult_le_pos; lra).
  assert (Hq1 : INR c / INR n <= bpow radix2 53).
  { apply Rle_trans with (INR c); [|exact Hc53].
    unfold Rdiv. rewrite <- (Rmult_1_r (INR c)) at 2. apply Rmult_le_compat_l; [lra|].
    rewrite <- Rinv_1. apply Rinv_le_contravar; lra. }
  destruct (fdiv_bounded cf nf (bpow radix2 53) Fc Fn) as [Fq Eq].
  - rewrite En. lra.
  - apply fmt64_bpow. lia.
  - exact bpow53_lt.
  - rewrite Ec, En, Rabs_pos_eq by exact Hq0. exact Hq1.
  - rewrite Ec, En in Eq. fold q in Fq, Eq. split; [exact Fq|]. split; [exact Eq|]. rewrite Eq.
    destruct (Nat.eq_dec c 0) as [->|Hc1].
    + cbn [INR]. unfold Rdiv. rewrite Rmult_0_l, rnd64_0, Rminus_0_r, Rabs_R0. lra.
    + pose proof (rnd64_err_normal (INR c / INR n)) as G. rewrite Rabs_pos_eq in G by exact Hq0. apply G.
      assert (H1 : 1 <= INR c) by (change 1 with (INR 1); apply le_INR; lia).
      destruct (Rle_or_lt (INR n) (INR c)) as [Hge|Hlt].
      * apply Rle_trans with 1; [change 1 with (bpow radix2 0); apply bpow_le; lia|].
        apply (Rmult_le_reg_r (INR n)); [lra|]. unfold Rdiv. rewrite Rmult_assoc, Rinv_l by lra. lra.
      * assert (Hn53 : INR n <= bpow radix2 53) by (apply INR_le_bpow53; exact Hnb).
        apply Rle_trans with (bpow radix2 (-53)); [apply bpow_le; lia|].
        change (-53)%Z with (- (53))%Z. rewrite bpow_opp.
        apply Rle_trans with (/ INR n); [apply Rinv_le_contravar; lra|].
        unfold Rdiv. rewrite <- (Rmult_1_l (/ INR n)) at 1.
        apply Rmult_le_compat_r; lra.
Qed.

(* Gaussian fit on integer-valued (count) data: the class mean is the correctly rounded total / count *)
Theorem gaussian_mean_integer_data x xc y user m :
  gaussian_fit FOps x y user = Some m -> Forall2 (Forall2 is_count) x xc ->
  forall k j, (k < length m.(g_classes))%nat -> (j < ncols x)%nat ->
    let total := list_sum (col 0%nat j (class_rows xc y (nth k m.(g_classes) 0%Z))) in
    let n := nth k m.(g_count) 0%nat in
    let theta := nth j (nth k m.(g_theta) []) 0%float in
    (Z.of_nat total <= 2 ^ 53)%Z -> (Z.of_nat n < 2 ^ 53)%Z ->
    ffin theta /\ FR theta = rnd64 (INR total / INR n) /\
    Rabs (FR theta - INR total / INR n) <= u64 * (INR total / INR n).
Proof.
  intros Hfit Hx k j Hk Hj total n theta Ht Hn.
  destruct (gaussian_mean_float_error x y user m Hfit k j Hk Hj) as (E1 & E2 & E3 & _).
  fold theta in E3. fold n in E1. rewrite E1 in E3.
  destruct (class_column_float_sum_exact x xc y (nth k (g_classes m) 0%Z) j Hx Ht) as [Fs Es].
  rewrite E3.
  apply nat_quotient_float; [split; [exact Fs | exact Es] | apply oofnat_exact; exact Hn | | exact Ht | lia].
  rewrite <- E1, E2. apply count_label_pos.
  destruct (gaussian_fit_inv_gen FOps x y user m Hfit) as (_ & Hc & _).
  rewrite Hc in *. apply unique_classes_in, nth_In. exact Hk.
Qed.

(* sharpness of the 2^53 bound of the counter lemma: 2^53 + 1 is not a binary64 number *)
Lemma counter_not_exact_beyond :
  fsum [0x1p+53%float; 1%float] = 0x1p+53%float /\ fsum [0x1p+53%float; 1%float; 1%float] = 0x1p+53%float.
Proof. split; vm_compute; reflexivity. Qed.


(* ---------------- helpers for instances (hypotheses decided by vm_compute) ---------------- *)
(* a matrix of naturals below 2^53 written as floats with T::from is a matrix of integer-valued floats *)
Lemma counts_matrix_is_count (xc : list (list nat)) :
  (forall row, In row xc -> forall c, In c row -> (Z.of_nat c < 2 ^ 53)%Z) ->
  Forall2 (Forall2 is_count) (map (map (oofnat FOps)) xc) xc.
Proof.
  induction xc as [|row xc IH]; intros H; cbn [map]; constructor.
  - assert (Hr : forall c, In c row -> (Z.of_nat c < 2 ^ 53)%Z) by (intros c Hc; apply (H row); [left; reflexivity | exact Hc]).
    clear H IH. induction row as [|c row IHr]; cbn [map]; constructor.
    + destruct (oofnat_exact c) as [F E]; [apply Hr; left; reflexivity|].
      split; [exact F|]. split; [exact E|]. specialize (Hr c (or_introl eq_refl)). lia.
    + apply IHr. intros c' Hc'. apply Hr. right. exact Hc'.
  - apply IH. intros r Hr. apply H. right. exact Hr.
Qed.

Lemma fleb_true_inv x y : ffin x -> ffin y -> PrimFloat.leb x y = true -> FR x <= FR y.
Proof.
  rewrite !ffin_B. unfold FR. intros Hx Hy. rewrite leb_equiv, (Bleb_correct prec emax) by assumption.
  intros H. destruct (Rle_bool_spec (B2R (Prim2B x)) (B2R (Prim2B y))) as [C|C]; [exact C | discriminate H].
Qed.

Lemma FR_2m1022 : FR 0x1p-1022%float = bpow radix2 (-1022).
Proof.
  rewrite FR_SF. change (FloatOps.Prim2SF 0x1p-1022%float) with (S754_finite false 4503599627370496 (-1074)).
  unfold SF2R, F2R. cbn [cond_Zopp Fnum Fexp].
  change (IZR (Z.pos 4503599627370496)) with (bpow radix2 52). rewrite <- bpow_plus. reflexivity.
Qed.
Lemma FR_2p53 : FR 0x1p+53%float = bpow radix2 53.
Proof.
  rewrite FR_SF. change (FloatOps.Prim2SF 0x1p+53%float) with (S754_finite false 4503599627370496 1).
  unfold SF2R, F2R. cbn [cond_Zopp Fnum Fexp].
  change (IZR (Z.pos 4503599627370496)) with (bpow radix2 52). rewrite <- bpow_plus. reflexivity.
Qed.

(* the range hypothesis on alpha, decided on the float *)
Definition alpha_range_b (alpha : PrimFloat.float) : bool :=
  PrimFloat.is_finite alpha && PrimFloat.leb 0x1p-1022%float alpha && PrimFloat.leb alpha 0x1p+53%float.
Lemma alpha_range_b_sound alpha : alpha_range_b alpha = true -> / 2 ^ 1022 <= FR alpha <= 2 ^ 53.
Proof.
  unfold alpha_range_b. intros H. apply andb_prop in H as [H H3]. apply andb_prop in H as [H1 H2].
  rewrite <- C03.ProofsFloat2.bpow_m1022, <- bpow53_pow, <- FR_2m1022, <- FR_2p53.
  split; apply fleb_true_inv; try assumption; reflexivity.
Qed.
