(* C11 — unique_with_indices: the label -> class-index mapping, for arbitrary integer labels. *)
From Coq Require Import List ZArith Bool Arith Lia.
From SC Require Import C11.Model.
Import ListNotations.
Local Open Scope Z_scope.

Fixpoint sorted_le (l : list Z) : Prop :=
  match l with [] => True | x :: t => (forall y, In y t -> x <= y) /\ sorted_le t end.
Fixpoint sorted_lt (l : list Z) : Prop :=
  match l with [] => True | x :: t => (forall y, In y t -> x < y) /\ sorted_lt t end.

Lemma insertZ_in x l a : In a (insertZ x l) <-> a = x \/ In a l.
Proof.
  induction l as [|y t IH]; cbn.
  - intuition.
  - destruct (x <=? y); cbn; rewrite ?IH; intuition.
Qed.

Lemma insertZ_sorted x l : sorted_le l -> sorted_le (insertZ x l).
Proof.
  induction l as [|y t IH]; cbn; intros H.
  - split; [intros ? [] | exact I].
  - destruct H as [Hy Ht]. destruct (x <=? y) eqn:E.
    + apply Z.leb_le in E. cbn. split; [|split; assumption].
      intros z [<-|Hz]; [exact E | specialize (Hy z Hz); lia].
    + apply Z.leb_gt in E. cbn. split; [| apply IH; exact Ht].
      intros z Hz. apply (proj1 (insertZ_in _ _ _)) in Hz. destruct Hz as [->|Hz]; [lia | apply Hy; exact Hz].
Qed.

Lemma sortZ_in l a : In a (sortZ l) <-> In a l.
Proof.
  induction l as [|x t IH]; cbn; [tauto|]. rewrite insertZ_in, IH. intuition.
Qed.
Lemma sortZ_sorted l : sorted_le (sortZ l).
Proof. induction l as [|x t IH]; cbn; [exact I | apply insertZ_sorted; exact IH]. Qed.

Lemma dedupZ_cons2 x y t :
  dedupZ (x :: y :: t) = if x =? y then dedupZ (y :: t) else x :: dedupZ (y :: t).
Proof. reflexivity. Qed.

Lemma dedupZ_in l a : In a (dedupZ l) <-> In a l.
Proof.
  induction l as [|x t IH]; [cbn; tauto|].
  destruct t as [|y t']; [cbn; tauto|].
  rewrite dedupZ_cons2. destruct (x =? y) eqn:E.
  - apply Z.eqb_eq in E. subst y. rewrite IH. cbn. intuition.
  - cbn [In]. rewrite IH. cbn. intuition.
Qed.

Lemma dedupZ_sorted l : sorted_le l -> sorted_lt (dedupZ l).
Proof.
  induction l as [|x t IH]; [cbn; auto|].
  destruct t as [|y t']; intros H.
  - cbn. split; [intros ? [] | exact I].
  - rewrite dedupZ_cons2. change (sorted_le (x :: y :: t')) with ((forall z, In z (y :: t') -> x <= z) /\ sorted_le (y :: t')) in H.
    destruct H as [Hx Ht]. destruct (x =? y) eqn:E.
    + apply IH. exact Ht.
    + apply Z.eqb_neq in E. cbn [sorted_lt]. split; [| apply IH; exact Ht].
      intros z Hz. apply (proj1 (dedupZ_in _ _)) in Hz.
      assert (x <= y) by (apply Hx; left; reflexivity).
      destruct Hz as [<-|Hz]; [lia|].
      destruct Ht as [Hy _]. specialize (Hy z Hz). lia.
Qed.

Lemma sorted_lt_nth l : sorted_lt l ->
  forall i j, (i < j < length l)%nat -> nth i l 0 < nth j l 0.
Proof.
  induction l as [|x t IH]; cbn [sorted_lt length]; intros H i j Hij; [lia|].
  destruct H as [Hx Ht]. destruct j as [|j]; [lia|]. destruct i as [|i].
  - cbn. apply Hx. apply nth_In. lia.
  - cbn. apply IH; [exact Ht | lia].
Qed.

Lemma index_of_in c l : In c l ->
  (index_of c l < length l)%nat /\ nth (index_of c l) l 0 = c.
Proof.
  induction l as [|x t IH]; cbn; intros H; [tauto|].
  destruct (x =? c) eqn:E.
  - apply Z.eqb_eq in E. split; [lia | exact E].
  - apply Z.eqb_neq in E. destruct H as [H|H]; [congruence|].
    destruct (IH H) as [H1 H2]. split; [lia | exact H2].
Qed.

Lemma index_of_nth l : sorted_lt l ->
  forall k, (k < length l)%nat -> index_of (nth k l 0) l = k.
Proof.
  induction l as [|x t IH]; cbn [sorted_lt length]; intros H k Hk; [lia|].
  destruct H as [Hx Ht]. destruct k as [|k]; cbn.
  - rewrite Z.eqb_refl. reflexivity.
  - assert (Hin : In (nth k t 0) t) by (apply nth_In; lia).
    specialize (Hx _ Hin). destruct (x =? nth k t 0) eqn:E; [apply Z.eqb_eq in E; lia|].
    f_equal. apply IH; [exact Ht | lia].
Qed.

(* index_of c classes = k  <->  c is the k-th class, for labels that occur *)
Lemma index_of_iff l c k : sorted_lt l -> In c l -> (k < length l)%nat ->
  (index_of c l = k <-> c = nth k l 0).
Proof.
  intros Hs Hin Hk. split.
  - intros <-. symmetry. apply index_of_in. exact Hin.
  - intros ->. apply index_of_nth; assumption.
Qed.

Lemma nth_map_lt {A B} (f : A -> B) (l : list A) (i : nat) (d : B) (d' : A) :
  (i < length l)%nat -> nth i (map f l) d = f (nth i l d').
Proof.
  revert i. induction l as [|a t IH]; intros [|i] H; cbn in *; try lia; auto. apply IH. lia.
Qed.

Lemma unique_classes_sorted y : sorted_lt (fst (unique_with_indices y)).
Proof. cbn. apply dedupZ_sorted, sortZ_sorted. Qed.
Lemma unique_classes_in y c : In c (fst (unique_with_indices y)) <-> In c y.
Proof. cbn. rewrite dedupZ_in, sortZ_in. tauto. Qed.

Lemma unique_with_indices_spec (y : list Z) :
  let classes := fst (unique_with_indices y) in
  let indices := snd (unique_with_indices y) in
  (forall i j, (i < j < length classes)%nat -> nth i classes 0 < nth j classes 0) /\
  (forall c, In c classes <-> In c y) /\
  length indices = length y /\
  (forall i, (i < length y)%nat ->
             (nth i indices 0%nat < length classes)%nat /\
             nth (nth i indices 0%nat) classes 0 = nth i y 0).
Proof.
  cbn zeta. split; [apply sorted_lt_nth, unique_classes_sorted|].
  split; [apply unique_classes_in|].
  split; [cbn; apply map_length|].
  intros i Hi. cbn [snd unique_with_indices].
  rewrite (nth_map_lt _ _ _ _ 0) by exact Hi. apply index_of_in.
  apply (unique_classes_in y). apply nth_In. exact Hi.
Qed.

Lemma indices_lt y : Forall (fun ci => (ci < length (fst (unique_with_indices y)))%nat)
                            (snd (unique_with_indices y)).
Proof.
  cbn. apply Forall_forall. intros ci Hci. apply in_map_iff in Hci. destruct Hci as (c & <- & Hc).
  apply index_of_in. apply dedupZ_in, sortZ_in. exact Hc.
Qed.
