(* C11 — Bernoulli and categorical smoothed frequencies (exact arithmetic, ROps). *)
From Coq Require Import List ZArith Bool Arith Lia Reals Lra.
From SC Require Import Base.Num C11.Model C11.ProofsLabels C11.ProofsCounts C11.ProofsStats.
Import ListNotations.

Lemma nth_zip {A B} (l1 : list A) (l2 : list B) k d1 d2 :
  k < length l1 -> k < length l2 -> nth k (zip l1 l2) (d1, d2) = (nth k l1 d1, nth k l2 d2).
Proof.
  revert l2 k. induction l1 as [|a t IH]; intros [|b u] [|k] H1 H2; cbn in *; try lia; auto.
  apply IH; lia.
Qed.
Lemma zip_length_min {A B} (l1 : list A) (l2 : list B) : length (zip l1 l2) = Nat.min (length l1) (length l2).
Proof. revert l2. induction l1 as [|a t IH]; intros [|b u]; cbn; auto. Qed.

Lemma all_some_length {A} (l : list (option A)) r : all_some l = Some r -> length r = length l.
Proof.
  revert r. induction l as [|o t IH]; intros r; cbn.
  - intros [= <-]. reflexivity.
  - destruct o as [a|]; [|discriminate]. destruct (all_some t) as [r'|]; [|discriminate].
    intros [= <-]. cbn. f_equal. apply IH. reflexivity.
Qed.
Lemma convert_length {T} (f : T -> option nat) x xc : convert f x = Some xc -> length xc = length x.
Proof. unfold convert. intros H. apply all_some_length in H. rewrite map_length in H. exact H. Qed.

Lemma in_zip_l {A B} (l1 : list A) (l2 : list B) ab : In ab (zip l1 l2) -> In (fst ab) l1.
Proof.
  revert l2. induction l1 as [|a t IH]; intros [|b u]; cbn; try tauto.
  intros [<-|H]; [left; reflexivity | right; apply (IH u); exact H].
Qed.
Lemma class_rows_in {A} (x : list (list A)) y c r : In r (class_rows x y c) -> In r x.
Proof.
  unfold class_rows. intros H. apply in_map_iff in H. destruct H as (ry & <- & H).
  apply filter_In in H. apply (in_zip_l x y ry (proj1 H)).
Qed.

Lemma list_sum_le_length (l : list nat) : (forall v, In v l -> v <= 1) -> list_sum l <= length l.
Proof.
  induction l as [|a t IH]; intros H; [cbn; lia|].
  change (list_sum (a :: t)) with (a + list_sum t). cbn [length].
  assert (a <= 1) by (apply H; left; reflexivity).
  assert (list_sum t <= length t) by (apply IH; intros v Hv; apply H; right; exact Hv). lia.
Qed.

Definition binary (xc : list (list nat)) : Prop := forall row, In row xc -> forall v, In v row -> v <= 1.

Lemma binary_col_sum xc y c j : binary xc ->
  list_sum (col 0 j (class_rows xc y c)) <= length (class_rows xc y c).
Proof.
  intros Hb. unfold col. rewrite <- (map_length (fun row => nth j row 0) (class_rows xc y c)).
  apply list_sum_le_length. intros v Hv. apply in_map_iff in Hv. destruct Hv as (row & <- & Hrow).
  destruct (nth_in_or_default j row 0) as [Hin|Heq]; [|rewrite Heq; lia].
  apply (Hb row); [apply (class_rows_in xc y c row Hrow) | exact Hin].
Qed.

Local Open Scope R_scope.

Section Counts.
  Variable to_usize : R -> option nat.
  Variable to_cat : R -> option nat.

  Lemma two_R : two ROps = 2.
  Proof. unfold two. cbn [oadd o1 ROps]. ring. Qed.

  Lemma bernoulli_log_R alpha c n :
    bernoulli_log ROps alpha c n = ln ((INR c + alpha) / (INR n + alpha * 2)).
  Proof. unfold bernoulli_log. cbn [oln odiv oadd omul ROps]. rewrite !oofnat_R, two_R. reflexivity. Qed.

  Lemma bernoulli_fit_inv x0 y alpha user th m :
    bernoulli_fit ROps to_usize x0 y alpha user th = Some m ->
    let x := binarize ROps th x0 in
    let classes := fst (unique_with_indices y) in
    let indices := snd (unique_with_indices y) in
    let K := length classes in
    exists xc,
      shape_ok x y = true /\ convert to_usize x = Some xc /\
      m.(c_classes) = classes /\
      m.(c_count) = count_classes K indices /\
      class_priors ROps user (count_classes K indices) (length x) = Some m.(c_priors) /\
      m.(c_fcount) = count_features K (ncols x) xc indices /\
      m.(c_flp) = map (fun cc => map (fun c => bernoulli_log ROps alpha c (snd cc)) (fst cc))
                      (zip (count_features K (ncols x) xc indices) (count_classes K indices)).
  Proof.
    unfold bernoulli_fit. cbn zeta. destruct (shape_ok (binarize ROps th x0) y) eqn:Hs; [|discriminate].
    destruct (alpha_ok ROps alpha) eqn:Ha; [|discriminate]. cbn [andb].
    destruct (unique_with_indices y) as [classes indices] eqn:Hu. cbn [fst snd].
    destruct (class_priors ROps user (count_classes (length classes) indices)
                           (length (binarize ROps th x0))) as [pri|] eqn:Hp; [|discriminate].
    destruct (convert to_usize (binarize ROps th x0)) as [xc|] eqn:Hx; [|discriminate].
    intros [= <-]. exists xc. cbn. repeat split; auto.
  Qed.

  Lemma bernoulli_probs_spec x0 y alpha user th m :
    bernoulli_fit ROps to_usize x0 y alpha user th = Some m -> 0 < alpha ->
    let x := binarize ROps th x0 in
    exists xc, convert to_usize x = Some xc /\
    forall k j, (k < length m.(c_classes))%nat -> (j < ncols x)%nat ->
      let c_k := nth k m.(c_classes) 0%Z in
      let n_k := nth k m.(c_count) 0%nat in
      let N := nth j (nth k m.(c_fcount) []) 0%nat in
      n_k = count_label y c_k /\
      N = list_sum (col 0%nat j (class_rows xc y c_k)) /\
      exp (nth j (nth k m.(c_flp) []) 0) = (INR N + alpha) / (INR n_k + alpha * 2) /\
      (binary xc ->
       (N <= n_k)%nat /\
       1 - exp (nth j (nth k m.(c_flp) []) 0) = (INR (n_k - N) + alpha) / (INR n_k + alpha * 2)).
  Proof.
    intros Hfit Hal. cbn zeta.
    destruct (bernoulli_fit_inv x0 y alpha user th m Hfit) as (xc & Hs & Hx & Hc & Hcnt & _ & Hfc & Hflp).
    exists xc. split; [exact Hx|]. intros k j Hk Hj. rewrite Hc in *.
    destruct (shape_ok_inv _ y Hs) as [Hlen _].
    set (x := binarize ROps th x0) in *.
    set (classes := fst (unique_with_indices y)) in *.
    set (indices := snd (unique_with_indices y)) in *.
    set (p := ncols x) in *.
    set (c_k := nth k classes 0%Z).
    assert (Hnk : nth k (c_count m) 0%nat = count_label y c_k).
    { rewrite Hcnt. apply class_count_labels. exact Hk. }
    assert (HN : nth j (nth k (c_fcount m) []) 0%nat = list_sum (col 0%nat j (class_rows xc y c_k))).
    { rewrite Hfc. rewrite count_features_nth by assumption. f_equal. f_equal.
      apply rows_by_index. exact Hk. }
    assert (Hrow : nth k (c_flp m) []
                   = map (fun c => bernoulli_log ROps alpha c (nth k (c_count m) 0%nat))
                         (nth k (c_fcount m) [])).
    { rewrite Hflp. rewrite (nth_map_lt _ _ k _ ([], 0%nat)).
      - rewrite nth_zip; [cbn [fst snd]; rewrite <- Hfc, <- Hcnt; reflexivity | |].
        + rewrite count_features_length. exact Hk.
        + rewrite count_classes_length. exact Hk.
      - rewrite zip_length_min, count_features_length, count_classes_length. lia. }
    assert (Hlenrow : length (nth k (c_fcount m) []) = p).
    { rewrite Hfc. apply count_features_row_length. exact Hk. }
    assert (Hexp : exp (nth j (nth k (c_flp m) []) 0)
                   = (INR (nth j (nth k (c_fcount m) []) 0%nat) + alpha) / (INR (nth k (c_count m) 0%nat) + alpha * 2)).
    { rewrite Hrow. rewrite (nth_map_lt _ _ j _ 0%nat) by (rewrite Hlenrow; exact Hj).
      rewrite bernoulli_log_R. apply exp_ln.
      pose proof (pos_INR (nth j (nth k (c_fcount m) []) 0%nat)).
      pose proof (pos_INR (nth k (c_count m) 0%nat)).
      apply Rdiv_lt_0_compat; lra. }
    split; [exact Hnk|]. split; [exact HN|]. split; [exact Hexp|].
    intros Hb.
    assert (Hle : (nth j (nth k (c_fcount m) []) 0 <= nth k (c_count m) 0)%nat).
    { rewrite HN, Hnk. rewrite <- (class_rows_length xc y c_k).
      - apply binary_col_sum. exact Hb.
      - rewrite (convert_length _ _ _ Hx). exact Hlen. }
    split; [exact Hle|]. rewrite Hexp, minus_INR by exact Hle.
    pose proof (pos_INR (nth k (c_count m) 0%nat)). field. lra.
  Qed.

  (* ---------- categorical ---------- *)
  Lemma categorical_log_R alpha c n ncat :
    categorical_log ROps alpha c n ncat = ln ((INR c + alpha) / (INR n + INR ncat * alpha)).
  Proof. unfold categorical_log. cbn [oln odiv oadd omul ROps]. rewrite !oofnat_R. reflexivity. Qed.

  Lemma max_nat_ge l : forall v, In v l -> (v <= max_nat l)%nat.
  Proof.
    unfold max_nat. assert (H : forall a v, (In v l \/ (v <= a)%nat) -> (v <= fold_left Nat.max l a)%nat).
    { induction l as [|x t IH]; intros a v Hv; cbn [fold_left].
      - destruct Hv as [[]|Hv]. exact Hv.
      - destruct Hv as [[<-|Hv]|Hv].
        + apply IH. right. lia.
        + apply IH. left. exact Hv.
        + apply IH. right. lia. }
    intros v Hv. apply (H 0%nat v). left. exact Hv.
  Qed.

  Lemma filter_zip_fst_length {A} (p : nat -> bool) (yl : list nat) (cl : list A) :
    length yl = length cl ->
    length (filter (fun yv => p (fst yv)) (zip yl cl)) = length (filter p yl).
  Proof.
    revert cl. induction yl as [|a t IH]; intros [|b u] H; cbn in *; try lia.
    destruct (p a); cbn; rewrite IH by lia; reflexivity.
  Qed.

  Lemma column_length {A} (d : A) x j : length (column d x j) = length x.
  Proof. unfold column. apply map_length. Qed.

  Definition cat_column (yl : list nat) (xc : list (list nat)) (j l : nat) : list nat :=
    map snd (filter (fun yv => Nat.eqb (fst yv) l) (zip yl (column 0%nat xc j))).

  Lemma count_categories_sum ncat col0 :
    Forall (fun v => (v < ncat)%nat) col0 -> list_sum (count_categories ncat col0) = length col0.
  Proof. intros H. change (count_categories ncat col0) with (count_classes ncat col0). apply count_classes_sum. exact H. Qed.

  Lemma categorical_fit_inv x y alpha m :
    categorical_fit ROps to_cat x y alpha = Some m ->
    exists yl xc,
      shape_ok x y = true /\ labels_to_usize y = Some yl /\ convert to_cat x = Some xc /\
      let p := ncols x in
      let K := (max_nat yl + 1)%nat in
      let counts := count_classes K yl in
      let ncat := map (fun j => (max_nat (column 0%nat xc j) + 1)%nat) (seq 0 p) in
      let per_feature :=
          map (fun jn => map (fun lc => count_categories (snd jn) (cat_column yl xc (fst jn) (fst lc)))
                             (zip (seq 0 K) counts))
              (zip (seq 0 p) ncat) in
      m.(k_classes) = map Z.of_nat (seq 0 K) /\ m.(k_count) = counts /\
      m.(k_priors) = map (fun c => INR c / INR (length x)) counts /\
      m.(k_ncat) = ncat /\ m.(k_catcount) = per_feature /\
      m.(k_coef) = map (fun fn => map (fun cc => map (fun c => categorical_log ROps alpha c (snd cc) (snd fn)) (fst cc))
                                      (zip (fst fn) counts))
                       (zip per_feature ncat).
  Proof.
    unfold categorical_fit. destruct (alpha_ok ROps alpha) eqn:Ha; [|discriminate].
    destruct (shape_ok x y) eqn:Hs; [|discriminate]. cbn [andb].
    destruct (labels_to_usize y) as [yl|] eqn:Hy; [|discriminate].
    destruct (convert to_cat x) as [xc|] eqn:Hx; [|discriminate].
    intros [= <-]. exists yl, xc. cbn [k_classes k_count k_priors k_ncat k_catcount k_coef].
    repeat split; auto.
    apply map_ext. intros c. rewrite <- !INR_IZR_INZ. reflexivity.
  Qed.

  Lemma categorical_probs_spec x y alpha m :
    categorical_fit ROps to_cat x y alpha = Some m -> 0 < alpha ->
    exists yl xc,
      labels_to_usize y = Some yl /\ convert to_cat x = Some xc /\
      m.(k_classes) = map Z.of_nat (seq 0 (max_nat yl + 1)) /\
      forall j l, (j < ncols x)%nat -> (l < max_nat yl + 1)%nat ->
        let cnts := nth l (nth j m.(k_catcount) []) [] in
        let ncat := nth j m.(k_ncat) 0%nat in
        let n_l := nth l m.(k_count) 0%nat in
        ncat = (max_nat (column 0%nat xc j) + 1)%nat /\
        n_l = length (filter (fun v => Nat.eqb v l) yl) /\
        length cnts = ncat /\
        list_sum cnts = n_l /\
        (forall c, (c < ncat)%nat ->
           nth c cnts 0%nat = length (filter (fun v => Nat.eqb v c) (cat_column yl xc j l)) /\
           exp (nth c (nth l (nth j m.(k_coef) []) []) 0)
           = (INR (nth c cnts 0%nat) + alpha) / (INR n_l + INR ncat * alpha)) /\
        Rsum (map exp (nth l (nth j m.(k_coef) []) [])) = 1.
  Proof.
    intros Hfit Hal.
    destruct (categorical_fit_inv x y alpha m Hfit)
      as (yl & xc & Hs & Hy & Hx & Hcl & Hcnt & _ & Hncat & Hcc & Hcoef).
    exists yl, xc. split; [exact Hy|]. split; [exact Hx|]. split; [exact Hcl|].
    intros j l Hj Hl. cbn zeta.
    destruct (shape_ok_inv x y Hs) as [Hlen _].
    assert (Hyl : length yl = length y).
    { unfold labels_to_usize in Hy. apply all_some_length in Hy. rewrite map_length in Hy. exact Hy. }
    assert (Hxc : length xc = length x) by (apply (convert_length _ _ _ Hx)).
    set (p := ncols x) in *. set (K := (max_nat yl + 1)%nat) in *.
    set (counts := count_classes K yl) in *.
    set (ncats := map (fun j => (max_nat (column 0%nat xc j) + 1)%nat) (seq 0 p)) in *.
    assert (Hncj : nth j ncats 0%nat = (max_nat (column 0%nat xc j) + 1)%nat).
    { unfold ncats. rewrite (nth_map_lt _ _ j _ 0%nat) by (rewrite seq_length; exact Hj).
      rewrite seq_nth by exact Hj. reflexivity. }
    assert (Hlen_nc : length ncats = p) by (unfold ncats; rewrite map_length, seq_length; reflexivity).
    assert (Hlen_cnt : length counts = K) by apply count_classes_length.
    (* the count vector of (feature j, class l) *)
    assert (Hcnts : nth l (nth j (k_catcount m) []) []
                    = count_categories (nth j ncats 0%nat) (cat_column yl xc j l)).
    { rewrite Hcc. rewrite (nth_map_lt _ _ j _ (0%nat, 0%nat))
        by (rewrite zip_length_min, seq_length, Hlen_nc; lia).
      rewrite nth_zip by (rewrite ?seq_length, ?Hlen_nc; exact Hj). cbn [fst snd].
      rewrite (nth_map_lt _ _ l _ (0%nat, 0%nat))
        by (rewrite zip_length_min, seq_length, Hlen_cnt; lia).
      rewrite nth_zip by (rewrite ?seq_length, ?Hlen_cnt; exact Hl). cbn [fst snd].
      rewrite !seq_nth by assumption. reflexivity. }
    assert (Hcoefs : nth l (nth j (k_coef m) []) []
                     = map (fun c => categorical_log ROps alpha c (nth l counts 0%nat) (nth j ncats 0%nat))
                           (nth l (nth j (k_catcount m) []) [])).
    { rewrite Hcoef. rewrite (nth_map_lt _ _ j _ ([], 0%nat)).
      2:{ rewrite zip_length_min, Hlen_nc, <- Hcc, Hcc, map_length, zip_length_min, seq_length, Hlen_nc. lia. }
      rewrite nth_zip.
      2:{ rewrite map_length, zip_length_min, seq_length, Hlen_nc. lia. }
      2:{ rewrite Hlen_nc. exact Hj. }
      cbn [fst snd]. rewrite <- Hcc.
      assert (Hlen_j : length (nth j (k_catcount m) []) = K).
      { rewrite Hcc. rewrite (nth_map_lt _ _ j _ (0%nat, 0%nat))
          by (rewrite zip_length_min, seq_length, Hlen_nc; lia).
        rewrite map_length, zip_length_min, seq_length, Hlen_cnt. lia. }
      rewrite (nth_map_lt _ _ l _ ([], 0%nat)) by (rewrite zip_length_min, Hlen_j, Hlen_cnt; lia).
      rewrite nth_zip by (rewrite ?Hlen_j, ?Hlen_cnt; exact Hl). reflexivity. }
    rewrite Hcoefs, Hcnts, Hncat, Hcnt. rewrite Hncj.
    set (ncat := (max_nat (column 0%nat xc j) + 1)%nat).
    set (cc := cat_column yl xc j l).
    assert (Hall : Forall (fun v => (v < ncat)%nat) cc).
    { apply Forall_forall. intros v Hv. unfold cc, cat_column in Hv.
      apply in_map_iff in Hv. destruct Hv as (yv & <- & Hyv). apply filter_In in Hyv.
      pose proof (in_zip_r _ _ yv (proj1 Hyv)) as Hin.
      pose proof (max_nat_ge _ _ Hin). unfold ncat. lia. }
    assert (Hnl : nth l counts 0%nat = length (filter (fun v => Nat.eqb v l) yl)).
    { unfold counts. apply count_classes_nth. exact Hl. }
    assert (Hsum : list_sum (count_categories ncat cc) = nth l counts 0%nat).
    { rewrite count_categories_sum by exact Hall. rewrite Hnl. unfold cc, cat_column.
      rewrite map_length.
      apply (filter_zip_fst_length (fun v => Nat.eqb v l)).
      rewrite column_length. lia. }
    assert (Hlenc : length (count_categories ncat cc) = ncat).
    { change (count_categories ncat cc) with (count_classes ncat cc). apply count_classes_length. }
    assert (HD : 0 < INR (nth l counts 0%nat) + INR ncat * alpha).
    { pose proof (pos_INR (nth l counts 0%nat)). assert (0 < INR ncat) by (apply lt_0_INR; unfold ncat; lia). nra. }
    split; [reflexivity|]. split; [exact Hnl|]. split; [exact Hlenc|]. split; [exact Hsum|]. split.
    - intros c Hc. split.
      + change (count_categories ncat cc) with (count_classes ncat cc). apply count_classes_nth. exact Hc.
      + rewrite (nth_map_lt _ _ c _ 0%nat) by (rewrite Hlenc; exact Hc).
        rewrite categorical_log_R. apply exp_ln.
        apply Rdiv_lt_0_compat; [pose proof (pos_INR (nth c (count_categories ncat cc) 0%nat)); lra | exact HD].
    - rewrite map_map.
      rewrite (map_ext_in _ (fun c => (INR c + alpha) / (INR (nth l counts 0%nat) + INR ncat * alpha))).
      + rewrite Rsum_smoothed, Hlenc, Hsum. rewrite (Rmult_comm alpha). apply Rinv_r. lra.
      + intros c _. rewrite categorical_log_R. apply exp_ln.
        apply Rdiv_lt_0_compat; [pose proof (pos_INR c); lra | exact HD].
  Qed.
End Counts.

Lemma alpha_ok_true (a : R) : (0 <= a)%R -> alpha_ok ROps a = true.
Proof. intros H. unfold alpha_ok. cbn [oltb o0 ROps]. apply negb_true_iff, Rltb_false. exact H. Qed.
