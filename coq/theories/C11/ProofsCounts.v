(* C11 — the per-class accumulation loops (`v[class_index] += ...`) as sums over the rows of a class;
   class counts and priors. *)
From Coq Require Import List ZArith Bool Arith Lia Reals Lra.
From SC Require Import Base.Num C11.Model C11.ProofsLabels.
Import ListNotations.

(* ---------- upd / fold of upd ---------- *)
Lemma upd_length {A} (l : list A) i f : length (upd l i f) = length l.
Proof. revert i. induction l as [|a t IH]; intros [|i]; cbn; auto. Qed.

Lemma nth_upd {A} (l : list A) i f k d :
  nth k (upd l i f) d = if Nat.eqb k i && Nat.ltb k (length l) then f (nth k l d) else nth k l d.
Proof.
  revert i k. induction l as [|a t IH]; intros i k.
  - cbn. rewrite andb_false_r. reflexivity.
  - destruct i as [|i], k as [|k]; cbn [upd nth length]; try reflexivity.
    rewrite IH. reflexivity.
Qed.

Lemma fold_upd_length {A X} (g : X -> nat) (h : X -> A -> A) (xs : list X) (init : list A) :
  length (fold_left (fun acc x => upd acc (g x) (h x)) xs init) = length init.
Proof.
  revert init. induction xs as [|x xs IH]; intros init; cbn [fold_left]; [reflexivity|].
  rewrite IH, upd_length. reflexivity.
Qed.

Lemma nth_fold_upd {A X} (g : X -> nat) (h : X -> A -> A) (xs : list X) :
  forall (init : list A) k d, k < length init ->
  nth k (fold_left (fun acc x => upd acc (g x) (h x)) xs init) d
  = fold_left (fun a x => if Nat.eqb (g x) k then h x a else a) xs (nth k init d).
Proof.
  induction xs as [|x xs IH]; intros init k d Hk; cbn [fold_left]; [reflexivity|].
  rewrite IH by (rewrite upd_length; exact Hk). f_equal.
  rewrite nth_upd, (Nat.eqb_sym k). destruct (Nat.eqb (g x) k); cbn [andb]; [|reflexivity].
  apply Nat.ltb_lt in Hk. rewrite Hk. reflexivity.
Qed.

Lemma fold_count {X} (c : X -> bool) (l : list X) : forall a,
  fold_left (fun a x => if c x then S a else a) l a = a + length (filter c l).
Proof.
  induction l as [|x t IH]; intros a; cbn [fold_left filter]; [cbn; lia|].
  rewrite IH. destruct (c x); cbn [length]; lia.
Qed.

Lemma fold_collect {X Y} (c : X -> bool) (v : X -> Y) (l : list X) : forall a,
  fold_left (fun a x => if c x then a ++ [v x] else a) l a = a ++ map v (filter c l).
Proof.
  induction l as [|x t IH]; intros a; cbn [fold_left filter map]; [rewrite app_nil_r; reflexivity|].
  rewrite IH. destruct (c x); cbn [map]; [rewrite <- app_assoc; reflexivity | reflexivity].
Qed.

Lemma nth_repeat_lt {A} (a d : A) n k : k < n -> nth k (repeat a n) d = a.
Proof. revert k. induction n; intros [|k] H; cbn; try lia; auto. apply IHn. lia. Qed.

Lemma filter_map_length {X Y} (f : X -> Y) (p : Y -> bool) (l : list X) :
  length (filter p (map f l)) = length (filter (fun x => p (f x)) l).
Proof. induction l as [|x t IH]; cbn; [reflexivity|]. destruct (p (f x)); cbn; rewrite IH; reflexivity. Qed.

(* ---------- class counts ---------- *)
Definition count_label (y : list Z) (c : Z) : nat := length (filter (Z.eqb c) y).

Lemma count_classes_length k idx : length (count_classes k idx) = k.
Proof.
  unfold count_classes. rewrite (fold_upd_length (fun ci => ci) (fun _ => S)). apply repeat_length.
Qed.

Lemma count_classes_nth K idx k : k < K ->
  nth k (count_classes K idx) 0 = length (filter (fun ci => Nat.eqb ci k) idx).
Proof.
  intros Hk. unfold count_classes.
  rewrite (nth_fold_upd (fun ci => ci) (fun _ => S)) by (rewrite repeat_length; exact Hk).
  rewrite (fold_count (fun ci => Nat.eqb ci k)). rewrite nth_repeat_lt by exact Hk. reflexivity.
Qed.

Lemma list_sum_upd_S l i : i < length l -> list_sum (upd l i S) = S (list_sum l).
Proof.
  revert i. induction l as [|a t IH]; intros [|i] H; unfold list_sum in *; cbn in *; try lia. rewrite IH; lia.
Qed.

Lemma list_sum_fold_upd_S idx : forall init,
  Forall (fun ci => ci < length init) idx ->
  list_sum (fold_left (fun cc ci => upd cc ci S) idx init) = list_sum init + length idx.
Proof.
  induction idx as [|ci t IH]; intros init H; cbn [fold_left length]; [lia|].
  inversion H as [|? ? Hci Ht]; subst. rewrite IH.
  - rewrite list_sum_upd_S by exact Hci. lia.
  - rewrite upd_length. exact Ht.
Qed.

Lemma list_sum_repeat0 n : list_sum (repeat 0 n) = 0.
Proof. induction n; cbn; auto. Qed.

Lemma count_classes_sum K idx : Forall (fun ci => ci < K) idx ->
  list_sum (count_classes K idx) = length idx.
Proof.
  intros H. unfold count_classes. rewrite list_sum_fold_upd_S.
  - rewrite list_sum_repeat0. reflexivity.
  - rewrite repeat_length. exact H.
Qed.

(* counts in terms of the labels *)
Lemma index_filter_labels (y : list Z) k :
  let classes := fst (unique_with_indices y) in
  k < length classes ->
  forall c, In c y -> Nat.eqb (index_of c classes) k = Z.eqb (nth k classes 0%Z) c.
Proof.
  intros classes Hk c Hc.
  assert (Hin : In c classes) by (apply unique_classes_in; exact Hc).
  pose proof (index_of_iff classes c k (unique_classes_sorted y) Hin Hk) as Hiff.
  destruct (Nat.eqb (index_of c classes) k) eqn:E1, (Z.eqb (nth k classes 0%Z) c) eqn:E2; auto.
  - apply Nat.eqb_eq in E1. apply Hiff in E1. apply Z.eqb_neq in E2. congruence.
  - apply Z.eqb_eq in E2. symmetry in E2. apply Hiff in E2. apply Nat.eqb_neq in E1. congruence.
Qed.

Lemma class_count_labels (y : list Z) k :
  let classes := fst (unique_with_indices y) in
  let indices := snd (unique_with_indices y) in
  k < length classes ->
  nth k (count_classes (length classes) indices) 0 = count_label y (nth k classes 0%Z).
Proof.
  intros classes indices Hk. rewrite count_classes_nth by exact Hk.
  subst indices. cbn [snd unique_with_indices].
  rewrite (filter_map_length (fun c => index_of c (dedupZ (sortZ y))) (fun ci => Nat.eqb ci k)).
  unfold count_label. f_equal. apply filter_ext_in. intros c Hc.
  apply (index_filter_labels y k Hk c Hc).
Qed.

Lemma class_count_total (y : list Z) :
  list_sum (count_classes (length (fst (unique_with_indices y))) (snd (unique_with_indices y)))
  = length y.
Proof.
  rewrite count_classes_sum by apply indices_lt. cbn. apply map_length.
Qed.

(* a class that is listed occurs at least once *)
Lemma count_label_pos (y : list Z) c : In c y -> 0 < count_label y c.
Proof.
  unfold count_label. induction y as [|a t IH]; cbn; intros H; [tauto|].
  destruct (Z.eqb c a) eqn:E; cbn; [lia|]. destruct H as [H|H]; [| apply IH; exact H].
  apply Z.eqb_neq in E. congruence.
Qed.

(* ---------- priors ---------- *)
Local Open Scope R_scope.
Definition Rsum (l : list R) : R := fold_right Rplus 0 l.

Lemma oofnat_R n : oofnat ROps n = INR n.
Proof. unfold oofnat. cbn [oofZ ROps]. symmetry. apply INR_IZR_INZ. Qed.

Lemma Rsum_div_counts (l : list nat) (n : nat) :
  Rsum (map (fun c => INR c / INR n) l) = INR (list_sum l) / INR n.
Proof.
  induction l as [|c t IH].
  - cbn. unfold Rdiv. ring.
  - change (Rsum (map (fun c => INR c / INR n) (c :: t)))
      with (INR c / INR n + Rsum (map (fun c => INR c / INR n) t)).
    change (list_sum (c :: t)) with (c + list_sum t)%nat.
    rewrite IH, plus_INR. unfold Rdiv. ring.
Qed.

Lemma class_priors_default (counts : list nat) (n : nat) :
  class_priors ROps None counts n = Some (map (fun c => INR c / INR n) counts).
Proof.
  cbn [class_priors]. f_equal. apply map_ext. intros c. rewrite !oofnat_R. reflexivity.
Qed.

Lemma priors_sum_one (counts : list nat) (n : nat) :
  list_sum counts = n -> (0 < n)%nat ->
  Rsum (map (fun c => INR c / INR n) counts) = 1.
Proof.
  intros Hs Hn. rewrite Rsum_div_counts, Hs. apply Rinv_r. apply not_0_INR. lia.
Qed.

Lemma class_priors_user (user : list R) (counts : list nat) (n : nat) pri :
  class_priors ROps (Some user) counts n = Some pri -> pri = user /\ length user = length counts.
Proof.
  cbn [class_priors]. destruct (Nat.eqb (length user) (length counts)) eqn:E; [|discriminate].
  intros [= <-]. apply Nat.eqb_eq in E. auto.
Qed.
