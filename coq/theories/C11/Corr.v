(* C11 — correspondence interface: the naive Bayes model instantiated at binary64 (`FOps`),
   compared with what the implementation returned on the same input.  Used by the harness
   (harness/src/bin/c11.rs) through `Eval vm_compute`.
   Conventions: counts are `N` literals, labels `Z` literals, floats exact hex literals.
   Exact (bit-for-bit) comparison: class labels, all counts, priors (one division or verbatim),
   Gaussian means and variances (only + * / - in the model's order).  Tolerance 1e-9 relative:
   everything that went through ln / exp (software implementations in the float instance).
   Predictions: the implementation's label must be the model's arg-max (`strict`, used when the
   harness knows the top scores are separated or tied structurally) or at least a class whose
   model score is within tolerance of the model's best score. *)
From Coq Require Import List ZArith NArith Bool Floats.
From SC Require Import Base.FloatUtil Base.Elem Base.Num C11.Model.
Import ListNotations.

Definition pi_f : float := 0x1.921fb54442d18p+1%float.
Definition two64 : float := 0x1p+64%float.
(* num-traits ToPrimitive::to_usize for f64: values in (-1, 2^64) truncate, everything else is None *)
Definition f_to_usize (x : float) : option nat :=
  if PrimFloat.ltb (-1)%float x && PrimFloat.ltb x two64 then Some (Z.to_nat (float_trunc_Z x)) else None.
(* floor().to_usize(): negative values (floor <= -1) and NaN give None *)
Definition f_to_cat (x : float) : option nat :=
  if PrimFloat.leb 0%float x && PrimFloat.ltb x two64 then Some (Z.to_nat (float_trunc_Z x)) else None.

Definition tol : float := 0x1.12e0be826d695p-30%float.   (* 1e-9 *)
Definition of_nats := map N.of_nat.
Definition nmat_eqb := list_eqb nlist_eqb.
Definition ftens_eq_tol (t : float) := list_eqb (fmat_eq_tol t).

(* ---------- predictions ---------- *)
Definition within (sb s : float) : bool :=
  PrimFloat.leb (PrimFloat.sub sb s) (PrimFloat.mul tol (fmax 1%float (fabs sb))).

(* None: the model's arg-max panics (unordered scores) *)
Definition pred_row_ok (strict : bool) (classes : list Z) (sc : list float) (label : Z) : option bool :=
  match argmax_class FOps (length classes) (fun k => nth k sc nan) with
  | None => None
  | Some best =>
    Some (if Z.eqb label (nth best classes 0%Z) then true
          else if strict then false
          else existsb (fun kz => Z.eqb (snd kz) label &&
                                  within (nth best sc nan) (nth (fst kz) sc nan))
                       (zip (seq 0 (length classes)) classes))
  end.

Fixpoint preds_ok (strict : bool) (classes : list Z) (scs : list (option (list float))) (labels : list Z)
  : option bool :=
  match scs, labels with
  | [], [] => Some true
  | None :: _, _ => None
  | Some sc :: t, l :: u =>
    match pred_row_ok strict classes sc l with
    | None => None
    | Some b => match preds_ok strict classes t u with None => None | Some r => Some (b && r) end
    end
  | Some sc :: t, [] =>
    (* only reached when the implementation panicked: keep looking for the panic *)
    match pred_row_ok strict classes sc 0%Z with
    | None => None
    | Some _ => match preds_ok strict classes t [] with None => None | Some _ => Some false end
    end
  | [], _ :: _ => Some false
  end.

(* expected: None = the implementation's predict panicked *)
Definition check_preds (strict : bool) (classes : list Z) (scs : list (option (list float)))
           (expected : option (list Z)) : bool :=
  match preds_ok strict classes scs (match expected with Some l => l | None => [] end), expected with
  | None, None => true
  | Some b, Some l => b && Nat.eqb (length l) (length scs)
  | _, _ => false
  end.

Definition score_list (nclasses : nat) (priors : list float) (ll : nat -> float) : list float :=
  map (class_score FOps ll priors) (seq 0 nclasses).

(* ---------- Gaussian ---------- *)
Definition gfit := gaussian_fit FOps.
Definition corr_gaussian (x : list (list float)) (y : list Z) (user : option (list float))
           (q : list (list float)) (strict : bool)
           (exp_fit : option (list Z * list N * list float * list (list float) * list (list float)))
           (exp_pred : option (list Z)) : bool :=
  match gfit x y user, exp_fit with
  | None, None => true
  | Some m, Some (cl, cnt, pri, theta, var) =>
    zlist_eqb m.(g_classes) cl && nlist_eqb (of_nats m.(g_count)) cnt && flist_eq m.(g_priors) pri &&
    fmat_eq m.(g_theta) theta && fmat_eq m.(g_var) var &&
    check_preds strict cl
      (map (fun row => Some (score_list (length cl) m.(g_priors) (gaussian_ll FOps pi_f m row))) q)
      exp_pred
  | _, _ => false
  end.

(* the same, with variances compared by tolerance relative to mean^2 + var (fallback group) *)
Definition corr_gaussian_stats_tol (x : list (list float)) (y : list Z)
           (theta var : list (list float)) : bool :=
  match gfit x y None with
  | None => false
  | Some m => fmat_eq_tol tol m.(g_theta) theta && fmat_eq_tol tol m.(g_var) var
  end.

(* ---------- multinomial / Bernoulli ---------- *)
Definition cnb_eq (m : @cnb float) (e : list Z * list N * list float * list (list N) * list (list float)) : bool :=
  let '(cl, cnt, pri, fc, flp) := e in
  zlist_eqb m.(c_classes) cl && nlist_eqb (of_nats m.(c_count)) cnt && flist_eq m.(c_priors) pri &&
  nmat_eqb (map of_nats m.(c_fcount)) fc && fmat_eq_tol tol m.(c_flp) flp.

Definition corr_multinomial (x : list (list float)) (y : list Z) (alpha : float) (user : option (list float))
           (q : list (list float)) (strict : bool)
           (exp_fit : option (list Z * list N * list float * list (list N) * list (list float)))
           (exp_pred : option (list Z)) : bool :=
  match multinomial_fit FOps f_to_usize x y alpha user, exp_fit with
  | None, None => true
  | Some m, Some e =>
    cnb_eq m e &&
    check_preds strict m.(c_classes)
      (map (fun row => Some (score_list (length m.(c_classes)) m.(c_priors) (multinomial_ll FOps m row))) q)
      exp_pred
  | _, _ => false
  end.

Definition corr_bernoulli (x : list (list float)) (y : list Z) (alpha : float) (user : option (list float))
           (threshold : option float) (q : list (list float)) (strict : bool)
           (exp_fit : option (list Z * list N * list float * list (list N) * list (list float)))
           (exp_pred : option (list Z)) : bool :=
  match bernoulli_fit FOps f_to_usize x y alpha user threshold, exp_fit with
  | None, None => true
  | Some m, Some e =>
    cnb_eq m e &&
    check_preds strict m.(c_classes)
      (map (fun row => Some (score_list (length m.(c_classes)) m.(c_priors) (bernoulli_ll FOps m row)))
           (binarize FOps threshold q))
      exp_pred
  | _, _ => false
  end.

(* ---------- categorical ---------- *)
Definition corr_categorical (x : list (list float)) (y : list Z) (alpha : float)
           (q : list (list float)) (strict : bool)
           (exp_fit : option (list Z * list N * list float * list N * list (list (list N)) *
                              list (list (list float))))
           (exp_pred : option (list Z)) : bool :=
  match categorical_fit FOps f_to_cat x y alpha, exp_fit with
  | None, None => true
  | Some m, Some (cl, cnt, pri, ncat, cc, coef) =>
    zlist_eqb m.(k_classes) cl && nlist_eqb (of_nats m.(k_count)) cnt && flist_eq m.(k_priors) pri &&
    nlist_eqb (of_nats m.(k_ncat)) ncat &&
    list_eqb nmat_eqb (map (map of_nats) m.(k_catcount)) cc &&
    ftens_eq_tol tol m.(k_coef) coef &&
    check_preds strict cl
      (map (fun row =>
              match all_some (map (categorical_ll FOps f_to_cat m row) (seq 0 (length cl))) with
              | None => None
              | Some lls => Some (score_list (length cl) m.(k_priors) (fun k => nth k lls 0%float))
              end) q)
      exp_pred
  | _, _ => false
  end.

(* ---------- parameters assembled through the builder methods ----------
   `steps`: the calls made on `Default::default()`, in call order; `fields`: the public fields of the
   struct the implementation's builder returned (compared bit for bit with the model's); the fitted
   model and the predictions are those of the implementation configured with that struct. *)
(* the call constructors, under names visible to the generated correspondence files (which import only this file) *)
Definition WithAlpha (a : float) : @bstep float := Model.WithAlpha a.
Definition WithPriors (p : list float) : @bstep float := Model.WithPriors p.
Definition WithBinarize (t : float) : @bstep float := Model.WithBinarize t.
Definition fopt_eq := option_eqb feq.
Definition params_eq (p : @nbparams float) (fields : float * option (list float) * option float) : bool :=
  let '(a, pr, b) := fields in
  feq p.(np_alpha) a && option_eqb flist_eq p.(np_priors) pr && fopt_eq p.(np_binarize) b.

Definition corr_gaussian_built (steps : list (@bstep float)) (fields : float * option (list float) * option float)
           x y q strict exp_fit exp_pred : bool :=
  let p := build_params (plain_default FOps) steps in
  params_eq p fields && corr_gaussian x y p.(np_priors) q strict exp_fit exp_pred.
Definition corr_multinomial_built (steps : list (@bstep float)) (fields : float * option (list float) * option float)
           x y q strict exp_fit exp_pred : bool :=
  let p := build_params (plain_default FOps) steps in
  params_eq p fields && corr_multinomial x y p.(np_alpha) p.(np_priors) q strict exp_fit exp_pred.
Definition corr_bernoulli_built (steps : list (@bstep float)) (fields : float * option (list float) * option float)
           x y q strict exp_fit exp_pred : bool :=
  let p := build_params (bernoulli_default FOps) steps in
  params_eq p fields && corr_bernoulli x y p.(np_alpha) p.(np_priors) p.(np_binarize) q strict exp_fit exp_pred.
Definition corr_categorical_built (steps : list (@bstep float)) (fields : float * option (list float) * option float)
           x y q strict exp_fit exp_pred : bool :=
  let p := build_params (plain_default FOps) steps in
  params_eq p fields && corr_categorical x y p.(np_alpha) q strict exp_fit exp_pred.

(* ---------- unique_with_indices through the public API is only visible as `classes`;
   the index vector is checked directly on the model's definition ---------- *)
Definition corr_unique (y : list Z) (classes : list Z) (indices : list N) : bool :=
  let '(u, ix) := unique_with_indices y in
  zlist_eqb u classes && nlist_eqb (of_nats ix) indices.
