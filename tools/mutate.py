#!/usr/bin/env python3
"""Automated mutation sampling: an unbiased complement to the hand-made seeded changes.

  tools/mutate.py --per-property 10 --workers 5 --seed 1 [C03 C04 ...]

For every property it enumerates single-token mutations (relational / arithmetic / logical operator
swaps, zero<->one constants, min<->max, range starts, dropped negations, dropped abs) of the
non-test, non-hook source lines of the files the property is anchored in (properties.jsonl
"anchors.files"), samples N of them with a seeded PRNG, and for each one, in a scratch worktree of
/repo's HEAD under /tmp (never /repo itself):

  1. `cargo test --lib --offline`   -> does not compile: "stillborn"; a unit test fails: "unit-killed";
  2. otherwise (the mutant SURVIVES the repository's own tests)
     `VERIF_REPO=<worktree> ./check Cxx --tier quick` -> "check-killed" (with the stage: concrete
     failing input or correspondence/proof only) or "missed".

A "missed" mutant is not necessarily a gap: the mutation may be equivalent or leave the property
true (dead code, performance-only, out-of-range inputs).  Those are triaged by hand afterwards
(mutation/triage.md).  Results are appended to mutation/results.jsonl; worktrees and build output
are removed at the end.
"""
import sys, os, re, json, random, subprocess, shutil, threading, queue, argparse, time

ROOT = os.path.dirname(os.path.dirname(os.path.abspath(__file__)))
ap = argparse.ArgumentParser()
ap.add_argument("--per-property", type=int, default=10)
ap.add_argument("--workers", type=int, default=5)
ap.add_argument("--seed", type=int, default=1)
ap.add_argument("--out", default=os.path.join(ROOT, "mutation", "results.jsonl"))
ap.add_argument("--dry", action="store_true")
ap.add_argument("props", nargs="*")
args = ap.parse_args()

FEAT = {"C19": ["--features", "serde"], "C20": ["--features", "ndarray-bindings,nalgebra-bindings"]}
FLAKY = ("svc_fit_predict", "test_cross_val_predict_knn")

OPS = [
    (r"<=", "<", "rel"), (r">=", ">", "rel"), (r"(?<= )<(?= )", "<=", "rel"), (r"(?<= )>(?= )", ">=", "rel"),
    (r"==", "!=", "rel"), (r"!=", "==", "rel"),
    (r"(?<= )\+(?= )", "-", "arith"), (r"(?<= )-(?= )", "+", "arith"), (r"(?<= )\*(?= )", "/", "arith"), (r"(?<= )/(?= )", "*", "arith"),
    (r"\+=", "-=", "arith"), (r"-=", "+=", "arith"),
    (r"&&", "||", "logic"),
    (r"T::zero\(\)", "T::one()", "const"), (r"T::one\(\)", "T::zero()", "const"), (r"T::two\(\)", "T::one()", "const"),
    (r"\.min\(", ".max(", "minmax"), (r"\.max\(", ".min(", "minmax"),
    (r"\b0\.\.", "1..", "range"), (r"\b1\.\.", "0..", "range"), (r"\.\.=", "..", "range"),
    (r"\+ 1\b", "+ 2", "offby"), (r"- 1\b", "- 2", "offby"),
    (r"\bif !", "if ", "neg"), (r"\.abs\(\)", "", "abs"),
]


def code_lines(path):
    """indices of mutable lines: before the test module, outside comments/attributes and outside
    items guarded by cfg(smartcore_verif)."""
    lines = open(path).read().split("\n")
    ok = []
    skip_depth = None
    depth = 0
    pending_hook = False
    for i, l in enumerate(lines):
        s = l.strip()
        if s.startswith("#[cfg(test)]"):
            break
        if "smartcore_verif" in s:
            pending_hook = True
            continue
        if pending_hook:
            # skip the following brace-balanced item (or single statement)
            depth += l.count("{") - l.count("}")
            if skip_depth is None:
                skip_depth = True
            if depth <= 0 and ("}" in l or s.endswith(";") or s.endswith(",")):
                pending_hook = False
                skip_depth = None
                depth = 0
            continue
        if not s or s.startswith("//") or s.startswith("#[") or s.startswith("use ") or s.startswith("pub use "):
            continue
        if s.startswith("///") or s.startswith("//!"):
            continue
        ok.append(i)
    return lines, ok


def enumerate_mutants(relpath):
    path = os.path.join("/repo", relpath)
    if not os.path.exists(path):
        return []
    lines, ok = code_lines(path)
    out = []
    for i in ok:
        code = lines[i].split("//")[0]
        if "impl<" in code or "RealNumber" in code or re.match(r"\s*(\+ \w+(<|$|\s)|where\b)", code) or code.rstrip().endswith(">,"):
            continue
        if "assert" in code or "panic!" in code or "format!" in code or "write!" in code or "fn " in code and "->" not in code and "(" not in code:
            continue
        for pat, rep, kind in OPS:
            for m in re.finditer(pat, code):
                # avoid generics / lifetimes / closures / attributes
                pre = code[:m.start()]
                if kind == "rel" and (("<" in m.group(0) or ">" in m.group(0)) and ("::<" in code or "impl<" in code or "fn " in code or "->" in code[m.start()-1:m.end()+1] or "=>" in code[max(0,m.start()-1):m.end()+1])):
                    continue
                if "=>" in code[max(0, m.start()-1):m.end()+1] or "->" in code[max(0, m.start()-1):m.end()+1]:
                    continue
                if pre.count('"') % 2 == 1:
                    continue
                new = code[:m.start()] + rep + code[m.end():] + lines[i][len(code):]
                out.append({"file": relpath, "line": i + 1, "col": m.start(), "kind": kind, "old": lines[i].strip(), "new": new.strip(), "newline": new})
    return out


props = [json.loads(l) for l in open(os.path.join(ROOT, "properties.jsonl"))]
wanted = set(args.props) if args.props else None
rng = random.Random(args.seed)
jobs = []
for p in props:
    pid = p["id"]
    if wanted and pid not in wanted:
        continue
    files = [f for f in p["anchors"]["files"] if f.endswith(".rs")]
    pool = []
    for f in files:
        ms = enumerate_mutants(f)
        rng.shuffle(ms)
        pool.append(ms)
    # round-robin over the files so that every anchored file is sampled
    chosen = []
    k = 0
    while len(chosen) < args.per_property and any(pool):
        ms = pool[k % len(pool)]
        if ms:
            chosen.append(ms.pop())
        k += 1
    for j, m in enumerate(chosen):
        m["property"] = pid
        m["id"] = "%s_m%d_%d" % (pid, args.seed, j)
        jobs.append(m)
rng.shuffle(jobs)
print("mutants to run:", len(jobs), flush=True)
if args.dry:
    for j in jobs:
        print(j["id"], j["file"], j["line"], j["kind"], "|", j["old"][:70], "=>", j["new"][:70])
    sys.exit(0)
os.makedirs(os.path.dirname(args.out), exist_ok=True)
q = queue.Queue()
for j in jobs:
    q.put(j)
lock = threading.Lock()


def sh(cmd, cwd=None, env=None, timeout=1200):
    # own process group, killed as a whole on time-out (a mutant's test binary can loop forever and
    # would otherwise survive `cargo test` being killed)
    import signal
    p = subprocess.Popen(cmd, cwd=cwd, env=env, stdout=subprocess.PIPE, stderr=subprocess.STDOUT, start_new_session=True)
    try:
        out, _ = p.communicate(timeout=timeout)
        return p.returncode, out.decode("utf-8", "replace")
    except subprocess.TimeoutExpired:
        try:
            os.killpg(p.pid, signal.SIGKILL)
        except ProcessLookupError:
            pass
        out, _ = p.communicate()
        return 124, (out or b"").decode("utf-8", "replace") + "\nTIMEOUT"


def worker(w):
    wt = "/tmp/mut_w%d" % w
    tgt = wt + ".target"
    sh(["git", "-C", "/repo", "worktree", "remove", "--force", wt])
    shutil.rmtree(wt, ignore_errors=True)
    sh(["git", "-C", "/repo", "worktree", "prune"])
    rc, out = sh(["git", "-C", "/repo", "worktree", "add", "--detach", wt, "HEAD"])
    assert rc == 0, out
    env = dict(os.environ, CARGO_NET_OFFLINE="true", CARGO_TARGET_DIR=tgt)
    while True:
        try:
            m = q.get_nowait()
        except queue.Empty:
            break
        t0 = time.time()
        sh(["git", "checkout", "--", "."], cwd=wt)
        path = os.path.join(wt, m["file"])
        lines = open(path).read().split("\n")
        if lines[m["line"] - 1].strip() != m["old"]:
            continue
        lines[m["line"] - 1] = m["newline"]
        open(path, "w").write("\n".join(lines))
        rc, diff = sh(["git", "diff"], cwd=wt)
        res = {k: m[k] for k in ("id", "property", "file", "line", "kind", "old", "new")}
        res["diff"] = diff
        feat = FEAT.get(m["property"], [])
        verdict = None
        for attempt in range(2):
            rc, out = sh(["cargo", "test", "--lib", "--offline"] + feat, cwd=wt, env=env, timeout=900)
            if rc == 124:
                verdict = "unit-killed(timeout)"; break
            if "error: could not compile" in out or "error[E" in out:
                verdict = "stillborn"; break
            failed = re.findall(r"^test (\S+) \.\.\. FAILED", out, re.M)
            if rc == 0 and not failed:
                verdict = None; break
            if failed and all(any(f in x for f in FLAKY) for x in failed):
                continue
            verdict = "unit-killed"; res["unit_failed"] = failed[:5]; break
        if verdict is None:
            e2 = dict(os.environ, VERIF_REPO=wt)
            rc, out = sh([os.path.join(ROOT, "check"), m["property"], "--tier", "quick"], cwd=ROOT, env=e2, timeout=2400)
            vio = [l for l in out.splitlines() if l.startswith("VIOLATION")]
            if rc == 124:
                verdict = "check-timeout"
            elif vio:
                verdict = "check-killed(no-failing-input-found)" if all("no-failing-input-found" in v for v in vio) else "check-killed(failing-input)"
                res["first_violation"] = vio[0]
            elif rc != 0:
                verdict = "check-error(exit %d)" % rc
                res["tail"] = out[-600:]
            else:
                verdict = "missed"
        res["verdict"] = verdict
        res["seconds"] = round(time.time() - t0)
        with lock:
            open(args.out, "a").write(json.dumps(res) + "\n")
            print(res["id"], res["file"], res["line"], res["kind"], "->", verdict, "(%ds)" % res["seconds"], flush=True)
    sh(["git", "-C", "/repo", "worktree", "remove", "--force", wt])
    shutil.rmtree(wt, ignore_errors=True)
    shutil.rmtree(wt + ".verif", ignore_errors=True)
    shutil.rmtree(tgt, ignore_errors=True)
    sh(["git", "-C", "/repo", "worktree", "prune"])


ths = [threading.Thread(target=worker, args=(w,)) for w in range(args.workers)]
for t in ths:
    t.start()
for t in ths:
    t.join()
print("done")
