#!/usr/bin/env python3
"""Regenerates /verif/MANIFEST.json from meta/Cxx.json (one file per claimed property)."""
import json, os, glob
ROOT = os.path.dirname(os.path.dirname(os.path.abspath(__file__)))
props = [json.loads(l) for l in open(os.path.join(ROOT, "properties.jsonl"))]
hooks = [l.strip() for l in open(os.path.join(ROOT, "meta", "hook_commits.txt")) if l.strip()] if os.path.exists(os.path.join(ROOT, "meta", "hook_commits.txt")) else []
checks, na = [], []
ready = set(open(os.path.join(ROOT, "meta", "ready.txt")).read().split())
for p in props:
    pid = p["id"]
    mp = os.path.join(ROOT, "meta", pid + ".json")
    if pid in ready and os.path.exists(mp) and os.path.exists(os.path.join(ROOT, "harness", "src", "bin", pid.lower() + ".rs")):
        m = json.load(open(mp))
        if m.get("not_applicable"):
            na.append({"property_id": pid, "reason": m["not_applicable"]})
            continue
        checks.append({
            "property_id": pid,
            "quick_cmd": "./check %s --tier quick" % pid,
            "thorough_cmd": "./check %s --tier thorough" % pid,
            "evidence_file": "evidence/%s.json" % pid,
            "replay_cmd_template": "./check %s --replay {path}" % pid,
            "engine": "coq-model-correspondence",
            "level_claimed": {"category": m["level"], "text": m["level_text"], "design_ref": m.get("design_ref", "DESIGN.md section 4")},
            "level_note": m["level_note"],
            "technique": m["technique"],
        })
    else:
        na.append({"property_id": pid, "reason": "no check registered yet: the model, theorems and harness for this property are not built at this commit (work in progress, see DESIGN.md section 8)"})
man = {
    "version": 1,
    "setup_cmd": "./check --setup",
    "hooks": {
        "guard": "smartcore_verif",
        "enable": "RUSTFLAGS=\"--cfg smartcore_verif\" (set by ./check when it builds /verif/harness against /repo by path)",
        "baseline_off_cmd": "cd /repo && cargo test --workspace --no-fail-fast --offline",
        "source_commits": hooks,
        "add_only": True,
    },
    "engines": [{
        "name": "coq-model-correspondence",
        "path": "check",
        "serves_properties": [c["property_id"] for c in checks],
        "kind_free_text": "Coq 8.16 theorems about hand-written executable Gallina models (coq/theories), tied to /repo by a vm_compute correspondence check against a Rust harness (harness/) that also runs a failing-input search",
    }],
    "checks": checks,
    "not_applicable": na,
    "notes": "See DESIGN.md. Known findings: KNOWN_FINDINGS.txt. Seeded mutations: seeded/. VERIF_SEED and VERIF_TIER are honoured.",
}
json.dump(man, open(os.path.join(ROOT, "MANIFEST.json"), "w"), indent=1)
print("checks:", [c["property_id"] for c in checks], "not_applicable:", len(na))
