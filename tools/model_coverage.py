#!/usr/bin/env python3
"""Which model definitions do the theorems talk about?  For every property: the Definitions /
Fixpoints of the model files (everything in coq/theories/Cxx that is not Proofs*.v / Corr*.v),
whether their name occurs in a proof file (Proofs*.v, Properties/Cxx.v) — directly or through
another model definition that does (transitively) — and whether the correspondence (Corr*.v)
executes them.  Prints a table and the names no theorem reaches."""
import os, re, sys, glob
ROOT = os.path.dirname(os.path.dirname(os.path.abspath(__file__)))
TH = os.path.join(ROOT, "coq", "theories")
def strip_comments(s):
    out = []; depth = 0; i = 0
    while i < len(s):
        if s.startswith("(*", i): depth += 1; i += 2; continue
        if s.startswith("*)", i) and depth: depth -= 1; i += 2; continue
        if depth == 0: out.append(s[i])
        i += 1
    return "".join(out)
rows = []
for pid in sorted(d for d in os.listdir(TH) if re.fullmatch(r"C\d\d", d)):
    files = sorted(glob.glob(os.path.join(TH, pid, "*.v")))
    model = [f for f in files if not re.match(r"(Proofs|Corr)", os.path.basename(f))]
    proofs = [f for f in files if os.path.basename(f).startswith("Proofs")] + [os.path.join(TH, "Properties", pid + ".v")]
    corr = [f for f in files if os.path.basename(f).startswith("Corr")]
    defs = {}
    for f in model:
        src = strip_comments(open(f).read())
        for m in re.finditer(r"^\s*(?:Local\s+|Global\s+|Program\s+)?(Definition|Fixpoint|Function|Equations)\s+([A-Za-z_][A-Za-z0-9_']*)", src, re.M):
            name = m.group(2)
            # body: up to the next vernacular sentence start of a definition
            nxt = re.search(r"^\s*(?:Local\s+|Global\s+|Program\s+)?(Definition|Fixpoint|Function|Equations|Lemma|Theorem|Section|End|Record|Inductive|Notation|Instance)\b", src[m.end():], re.M)
            body = src[m.end(): m.end() + (nxt.start() if nxt else len(src))]
            defs[name] = body
    ptxt = "\n".join(strip_comments(open(f).read()) for f in proofs if os.path.exists(f))
    ctxt = "\n".join(strip_comments(open(f).read()) for f in corr)
    def occurs(name, txt):
        return re.search(r"(?<![A-Za-z0-9_'])" + re.escape(name) + r"(?![A-Za-z0-9_'])", txt) is not None
    reached = {n for n in defs if occurs(n, ptxt)}
    changed = True
    while changed:  # callees of reached definitions are reached (a theorem about f constrains what f calls)
        changed = False
        for n in list(reached):
            for c in defs:
                if c not in reached and occurs(c, defs[n]):
                    reached.add(c); changed = True
    executed = {n for n in defs if occurs(n, ctxt)}
    changed = True
    while changed:
        changed = False
        for n in list(executed):
            for c in defs:
                if c not in executed and occurs(c, defs[n]):
                    executed.add(c); changed = True
    neither = sorted(set(defs) - reached - executed)
    only_exec = sorted(executed - reached)
    not_exec = sorted(reached - executed)
    rows.append((pid, len(defs), len(reached), len(only_exec), len(neither), only_exec, neither, not_exec))
print("| property | model definitions | reached by a theorem | executed by the correspondence only | neither | reached by a theorem but never executed against the code |")
print("|---|---|---|---|---|---|")
for r in rows:
    print("| %s | %d | %d | %d | %d | %d |" % (r[:5] + (len(r[7]),)))
if "-v" in sys.argv:
    for r in rows:
        print("\n%s executed-only: %s" % (r[0], ", ".join(r[5])))
        print("%s neither: %s" % (r[0], ", ".join(r[6])))
        print("%s theorem-only (not executed): %s" % (r[0], ", ".join(r[7])))
