#!/usr/bin/env python3
import json, sys
pid = sys.argv[1]
wave = sys.argv[2] if len(sys.argv) > 2 else ''
p = [json.loads(l) for l in open('/verif/properties.jsonl') if json.loads(l)['id'] == pid][0]
wt = f"/tmp/seed_{pid}{wave}"
feat = ""
if pid == "C19":
    feat = " (this property needs `--features serde`; serde_json and bincode are dev-dependencies, so an integration test can use them: run the suite and your demo with `--features serde`)"
if pid == "C20":
    feat = " (this property needs `--features ndarray-bindings,nalgebra-bindings`; run the suite and your demo with those features)"
avoid = ""
if wave:
    import glob, os
    items = []
    for d in sorted(glob.glob(f'/verif/seeded/{pid}_*')):
        try:
            m = json.load(open(d + '/meta.json'))
            patch = open(d + '/patch.diff').read()
            files = sorted(set(l[6:] for l in patch.splitlines() if l.startswith('+++ b/')))
            first = [l for l in m.get('needs_to_manifest', '').splitlines() if l.strip() and not l.startswith('#')][:2]
            items.append(f"  - ({', '.join(files)}) " + ' '.join(first)[:300])
        except Exception:
            pass
    if items:
        avoid = "AVOID repeating these ideas, which other engineers already delivered for this property (pick different functions / different clauses / different trigger mechanisms):\n" + "\n".join(items) + "\n\n"
emphasis = ""
if wave == "e":
    emphasis = ("EMPHASIS for this round: four earlier rounds already delivered numeric-scale triggers (tiny/huge units, large offsets, absolute-epsilon comparisons), special-case shortcuts, builder-call-order bugs, cooperating producer/consumer sites and fit-then-use-on-other-data sequences. Prefer instead: (i) EDGE SHAPES AND COUNTS that the statement's scope explicitly includes (a single row / single column / single class / k equal to n / exactly the minimum admissible size / an empty group after filtering), (ii) the RARELY USED public entry points and accessors named in the property (the second of two solvers, the non-default variant, the decision/score/probability accessor rather than predict, the vector-typed twin of a matrix method, the f32 instantiation), (iii) ERROR AND VALIDATION paths the statement mentions (an input that must be rejected is accepted only in one combination; an input that must be accepted is rejected at one boundary), (iv) ORDER OR TIE handling (which of two equal candidates wins, stability of a sort, first-vs-last maximum) where the statement fixes the answer, (v) state that survives between calls (a cached quantity not refreshed, a buffer reused without clearing, a counter not reset when the same object or the same thread-local is used twice).\n\n")
if wave == "g":
    emphasis = ("EMPHASIS for this round: six earlier rounds (listed under AVOID) covered numeric-scale triggers, special-case shortcuts, builder/default/constructor layers, API-trait twins, edge shapes, tie handling and fit-then-use sequences. Prefer instead (1) SHARED HELPERS outside the files most obviously tied to this property but on its call path — `src/math/num.rs`, `src/math/vector.rs`, `src/linalg/stats.rs`, default methods in `src/linalg/mod.rs`, `src/algorithm/sort/*`, `src/algorithm/neighbour/*`, `src/api.rs`, `src/error/*` — changed in a way that looks like a clean-up or micro-optimisation and leaves every other user of the helper (and its unit tests) unaffected while this property fails on a specific input; (2) BOUNDARIES OF THE STATEMENT'S DOMAIN: the smallest / largest admissible size or parameter, the exact point where the statement switches from 'must succeed' to 'must be rejected', inputs that are admissible but sit next to an inadmissible one; (3) STATE REUSE: a fitted object used twice, predicted on an empty or single-row matrix, cloned, or compared with itself.\n\n")
if wave == "f":
    emphasis = ("EMPHASIS for this round: five earlier rounds covered numeric-scale triggers, special-case shortcuts, builder-call-order bugs, cooperating producer/consumer sites, fit-then-use sequences, edge shapes, validation paths, tie handling and the api-trait impls. Prefer instead THIN PUBLIC DELEGATIONS AND CONVENIENCE LAYERS that sit next to the core implementation and are easy to break without touching it: factory functions and convenience constructors (`Distances::…()`, `Kernels::…()`, `…Parameters::default()` values and `with_*` defaults, `from_*`/`new_*` twins), free-function wrappers versus the struct API (e.g. `metrics::accuracy(..)` vs `Accuracy{}.get_score(..)`, `ClassificationMetrics::…`), the vector-typed twin of a matrix method and default trait methods overridden by a type, accessors/getters that return stored state (coefficients(), intercept(), components(), classes, n-something), `Display`/`Debug`-independent conversions between the crate's own types (matrix <-> row vector <-> Vec), and documented default parameter values that the statement's scope relies on. The change must still make the PROPERTY false for some in-scope use through such a layer while the core path stays correct.\n\n")
if wave == "d":
    emphasis = ("EMPHASIS for this round: earlier rounds already explored plain numeric-scale triggers (data in a tiny or huge unit, a large common offset, absolute-epsilon comparisons) and single-line special-case shortcuts. Prefer instead: (i) TWO COOPERATING SITES that each look fine alone (a producer and a consumer that silently disagree about a convention: index base, row/column order, which of two buffers is current, units of a tolerance, whether a count includes the item itself); (ii) defects that need a MULTI-STEP SEQUENCE of public API calls to show (fit, then transform/predict on OTHER data; fit twice with the same object or parameters; builder methods called in a particular order; serialise, restore, then use a rarely used method); (iii) behaviour that depends on a particular random schedule, seed value, iteration limit or early-exit path; (iv) defects confined to ONE variant of a parameter (one kernel, one solver, one distance, one criterion, f32 only, one search backend, a non-default Option/boolean) while all other variants stay correct.\n\n")
print(f"""You are a test engineer assessing how well a verification effort can detect regressions in a Rust machine-learning library (a fork of SmartCore). Your scratch copy of the repository is the git worktree {wt} (already created; work ONLY there — do not read, list or modify anything under /verif or /repo, and do not look for other people's work elsewhere on disk). The sandbox is offline: always pass `--offline` to cargo.

The library is supposed to satisfy this semantic property:

  Title: {p['title']}
  Statement: {p['statement']}
  Scope (what it quantifies over): {p['quantifier']['text']}
  Code it is anchored in: {', '.join(p['anchors']['files'])}

{avoid}{emphasis}Task: produce TWO different, independent, realistic code changes (as a maintainer might plausibly introduce by mistake during a refactoring or "optimisation"), each of which
  (a) still compiles and still passes the existing unit-test suite unchanged: `cd {wt} && cargo test --lib --offline` must report 161 passed, 0 failed{feat};
  (b) makes the property above FALSE for some inputs — a genuine semantic violation of the statement within its stated scope, not a crash on out-of-scope input and not a change of unspecified behaviour;
  (c) needs something specific to manifest: an unusual but in-scope input (ties, duplicates, a particular shape, sign pattern, scale, parameter combination), a multi-step sequence of operations, a particular random schedule, or two cooperating sites that each look fine alone — NOT something ordinary use on typical data would expose at once. The two changes should touch different mechanisms (different functions / different clauses of the statement).
Do not change test code, do not add cfg tricks, do not touch code behind `#[cfg(smartcore_verif)]` (ignore that cfg entirely), do not special-case magic values that no real bug would depend on.

For each change k in {{1,2}} deliver under /tmp/seed_out/{pid}{wave}_k/ :
  * patch.diff — `git diff` of the source change only (must apply with `git apply` to a clean checkout of the worktree's HEAD);
  * demo.rs — a self-contained integration test file (it will be copied to `tests/seed_demo.rs`; it may only use the crate's public API and the dev-dependencies) whose test(s) FAIL with the change and PASS without it, checking the property's statement (not an incidental value);
  * notes.md — which clause of the property breaks, what exactly an input needs in order to expose it, and why the existing tests do not notice.
Verify all of this yourself: with the change applied run the unit tests (161 pass) and the demo (`cp demo.rs tests/seed_demo.rs && cargo test --offline --test seed_demo` → fails); then revert the source change with `git apply -R patch.diff` or `git checkout -- src` (NEVER `git stash`: the stash is shared with other people's worktrees) and run the demo again (→ passes). Leave the worktree clean (no source modifications, no tests/seed_demo.rs) when you finish. Final message: for each change a three-line summary (files touched, clause broken, trigger) and the exact verification commands you ran with their outcomes.""")
