#!/usr/bin/env python3
"""Runs ANOTHER property's check against stored automated mutants (mutation/results.jsonl).

  tools/cross_mutant.py --workers 3 C19:C04_m1_4 C03:C09_m1_4 ...

Each pair is <property whose check is run>:<mutant id>.  The mutant's diff is applied in a scratch
worktree of /repo's HEAD under /tmp (never /repo), the check runs with VERIF_REPO pointing at it, and
the verdict is appended to mutation/cross.jsonl.  Worktrees and build output are removed at the end."""
import sys, os, json, subprocess, shutil, threading, queue, time
ROOT = os.path.dirname(os.path.dirname(os.path.abspath(__file__)))
args = sys.argv[1:]
workers = 3
if args and args[0] == "--workers":
    workers = int(args[1]); args = args[2:]
mut = {}
for l in open(os.path.join(ROOT, "mutation", "results.jsonl")):
    d = json.loads(l); mut[d["id"]] = d
q = queue.Queue()
for a in args:
    p, m = a.split(":"); q.put((p, m))
lock = threading.Lock()
def sh(cmd, cwd=None, env=None, timeout=2400, inp=None):
    import signal
    p = subprocess.Popen(cmd, cwd=cwd, env=env, stdin=subprocess.PIPE if inp is not None else None, stdout=subprocess.PIPE, stderr=subprocess.STDOUT, start_new_session=True)
    try:
        out, _ = p.communicate(input=inp, timeout=timeout)
        return p.returncode, out.decode("utf-8", "replace")
    except subprocess.TimeoutExpired:
        try:
            os.killpg(p.pid, signal.SIGKILL)
        except ProcessLookupError:
            pass
        p.communicate()
        return 124, "TIMEOUT"
def worker(w):
    wt = "/tmp/xmut_w%d" % w
    sh(["git", "-C", "/repo", "worktree", "remove", "--force", wt]); shutil.rmtree(wt, ignore_errors=True); sh(["git", "-C", "/repo", "worktree", "prune"])
    rc, out = sh(["git", "-C", "/repo", "worktree", "add", "--detach", wt, "HEAD"]); assert rc == 0, out
    while True:
        try: p, m = q.get_nowait()
        except queue.Empty: break
        t0 = time.time()
        sh(["git", "checkout", "--", "."], cwd=wt)
        rc, out = sh(["git", "apply"], cwd=wt, inp=mut[m]["diff"].encode())
        if rc != 0:
            print(m, "diff does not apply", out); continue
        rc, out = sh([os.path.join(ROOT, "check"), p, "--tier", "quick"], cwd=ROOT, env=dict(os.environ, VERIF_REPO=wt))
        vio = [l for l in out.splitlines() if l.startswith("VIOLATION")]
        v = "check-timeout" if rc == 124 else ("check-killed(no-failing-input-found)" if vio and all("no-failing-input-found" in x for x in vio) else "check-killed(failing-input)" if vio else ("check-error(exit %d)" % rc if rc else "missed"))
        res = {"check": p, "mutant": m, "file": mut[m]["file"], "line": mut[m]["line"], "old": mut[m]["old"], "new": mut[m]["new"], "verdict": v, "first_violation": vio[0] if vio else None, "seconds": round(time.time() - t0)}
        with lock:
            open(os.path.join(ROOT, "mutation", "cross.jsonl"), "a").write(json.dumps(res) + "\n")
            print(p, m, mut[m]["file"], mut[m]["line"], "->", v, flush=True)
    sh(["git", "-C", "/repo", "worktree", "remove", "--force", wt]); shutil.rmtree(wt, ignore_errors=True); shutil.rmtree(wt + ".verif", ignore_errors=True); sh(["git", "-C", "/repo", "worktree", "prune"])
ts = [threading.Thread(target=worker, args=(i,)) for i in range(workers)]
[t.start() for t in ts]; [t.join() for t in ts]
