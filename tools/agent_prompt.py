#!/usr/bin/env python3
"""Prints the standard builder prompt for one property (used by the coordinator)."""
import json, sys
pid = sys.argv[1]
extra = sys.argv[2] if len(sys.argv) > 2 else ""
p = [json.loads(l) for l in open('/verif/properties.jsonl') if json.loads(l)['id'] == pid][0]
print(f"""You are one of several builders working in parallel on a formal-verification framework in /verif for the Rust crate in /repo (smartcore-dev, a pure-Rust ML library). Your job: build the complete check for property {pid}.

FIRST read /verif/BUILDING.md completely (conventions, commands, hard rules: which files you own, no Admitted/Axiom, never mutate or commit /repo, no false alarms). Then read the worked example (C18 files named there), then DESIGN.md's plan for your property: `grep -n "### {pid}" /verif/DESIGN.md` and read that section plus Section 2 (defects already repaired in /repo as `fix:` commits — the models describe the repaired code) and Section 3. Then read the Rust code your property is anchored in.

Property {pid}: {p['title']}
Statement: {p['statement']}
Quantifier: {p['quantifier']['text']}
Why tests can't settle it: {p['why_tests_cant']}
Anchors: {json.dumps(p['anchors'])}

Deliverables (all under /verif, files for {pid} only): coq/theories/{pid}/Model.v, Proofs*.v, Corr.v; coq/theories/Properties/{pid}.v; harness/src/bin/{pid.lower()}.rs; meta/{pid}.json. `./check {pid}` must end "OK" (exit 0) on the current tree for seeds 1..6 (VERIF_SEED) in the quick tier (target: under 3 minutes wall-clock) and for one thorough run, with: every theorem of Properties/{pid}.v compiled and its Print Assumptions inside the allow-list, all correspondence cases agreeing, and the search finding nothing.

Priorities, in order: (1) a faithful executable Gallina model + Corr.v + harness with a strong, definition-based search oracle and correspondence on the implementation's own outputs/state, quiet on all seeds — this is what detects code changes; (2) the core theorems of DESIGN.md's plan for {pid}, fully proved for all inputs (unbounded sizes), each with a satisfiability Example; (3) the extensions. Anything you cannot prove stays visible as a `_partial` theorem plus the full statement as a `Definition … : Prop` (never Admitted). Then do the mutation self-test in a scratch worktree exactly as BUILDING.md describes and strengthen the search where it misses a real violation.

Work budget: roughly 3 hours. Do not stop at the first working version: keep extending theorems and search depth until the budget is used, but always leave the tree in a state where `./check {pid}` passes. Do not commit anything. Finish with the final report described in BUILDING.md.
{extra}""")
