#!/usr/bin/env python3
"""Runs ANOTHER property's check against a stored seeded change (cross-detection).
  tools/cross_seed.py <seed-id> <Cyy>   -> seeded/<seed-id>/cross_<Cyy>.json
Scratch worktree under /tmp, removed at the end; /repo is never touched."""
import sys, os, subprocess, json, shutil, re
sid, pid = sys.argv[1], sys.argv[2]
ROOT = os.path.dirname(os.path.dirname(os.path.abspath(__file__)))
wt = "/tmp/xs_%s_%s" % (sid, pid)
def sh(cmd, **kw):
    p = subprocess.run(cmd, stdout=subprocess.PIPE, stderr=subprocess.STDOUT, **kw)
    return p.returncode, p.stdout.decode("utf-8", "replace")
def cleanup():
    sh(["git", "-C", "/repo", "worktree", "remove", "--force", wt]); shutil.rmtree(wt, ignore_errors=True); shutil.rmtree(wt + ".verif", ignore_errors=True)
    sh(["git", "-C", "/repo", "worktree", "prune"])
cleanup()
rc, out = sh(["git", "-C", "/repo", "worktree", "add", "--detach", wt, "HEAD"]); assert rc == 0, out
try:
    rc, out = sh(["git", "apply", os.path.join(ROOT, "seeded", sid, "patch.diff")], cwd=wt)
    if rc != 0:
        print("patch does not apply", out); sys.exit(3)
    rc, out = sh([os.path.join(ROOT, "check"), pid, "--tier", "quick"], cwd=ROOT, env=dict(os.environ, VERIF_REPO=wt), timeout=6000)
    vio = [l for l in out.splitlines() if l.startswith("VIOLATION")]
    stage = "none" if not vio else ("no-failing-input-found" if all("no-failing-input-found" in v for v in vio) else "failing input (concrete replay)")
    oracle = None
    m = re.search(r"replay=(\S+)", vio[0]) if vio else None
    if m and os.path.exists(m.group(1)):
        try: oracle = json.load(open(m.group(1))).get("oracle")
        except Exception: pass
    res = {"seed": sid, "checked_by": pid, "exit": rc, "violation_lines": len(vio), "caught_by": stage, "first_oracle": oracle,
           "tail": out.splitlines()[-6:]}
    json.dump(res, open(os.path.join(ROOT, "seeded", sid, "cross_%s.json" % pid), "w"), indent=1)
    print(sid, "vs", pid, "->", stage, oracle)
finally:
    cleanup()
