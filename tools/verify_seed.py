#!/usr/bin/env python3
"""Verifies one seeded change and runs the property's check against it.

  tools/verify_seed.py Cxx <dir-with-patch.diff+demo.rs+notes.md> <seed-id>   [--keep-anyway]

Steps (all in a scratch worktree of /repo's HEAD under /tmp, removed at the end; /repo is never touched):
  1. git apply patch.diff; cargo test --lib --offline  -> the unit suite must still pass (161 passed, 0 failed);
  2. cp demo.rs tests/seed_demo.rs; cargo test --test seed_demo -> must FAIL with the change;
  3. git apply -R; cargo test --test seed_demo -> must PASS without it;
  4. git apply patch.diff again; VERIF_REPO=<worktree> ./check Cxx (quick tier) -> record exit code, VIOLATION lines,
     which stage caught it (failing input / correspondence / proof / nothing).
Writes /verif/seeded/<seed-id>/{patch.diff,demo.rs,notes.md,meta.json} when 1-3 hold.
"""
import sys, os, subprocess, json, shutil, re

pid, src, sid = sys.argv[1], sys.argv[2], sys.argv[3]
ROOT = os.path.dirname(os.path.dirname(os.path.abspath(__file__)))
wt = "/tmp/vs_" + sid
feat = {"C19": ["--features", "serde"], "C20": ["--features", "ndarray-bindings,nalgebra-bindings"]}.get(pid, [])
env = dict(os.environ, CARGO_NET_OFFLINE="true", CARGO_TARGET_DIR="/tmp/vs_target_" + sid)


def sh(cmd, cwd=None, timeout=3000, e=None):
    p = subprocess.run(cmd, cwd=cwd, env=e or env, stdout=subprocess.PIPE, stderr=subprocess.STDOUT, timeout=timeout, shell=isinstance(cmd, str))
    return p.returncode, p.stdout.decode("utf-8", "replace")


def results(out):
    return " | ".join(re.findall(r"test result: [^\n]*", out))


def cleanup():
    sh(["git", "-C", "/repo", "worktree", "remove", "--force", wt])
    shutil.rmtree(wt, ignore_errors=True)
    shutil.rmtree(wt + ".verif", ignore_errors=True)
    shutil.rmtree(env["CARGO_TARGET_DIR"], ignore_errors=True)
    sh(["git", "-C", "/repo", "worktree", "prune"])


cleanup()
rc, out = sh(["git", "-C", "/repo", "worktree", "add", "--detach", wt, "HEAD"])
assert rc == 0, out
patch = os.path.abspath(os.path.join(src, "patch.diff"))
demo = os.path.abspath(os.path.join(src, "demo.rs"))
verdict = {"id": sid, "property": pid, "features": " ".join(feat)}
try:
    rc, out = sh(["git", "apply", patch], cwd=wt)
    if rc != 0:
        print("patch does not apply:", out); sys.exit(3)
    # the unmodified suite has two rarely failing, unseeded tests (svm::svc::tests::svc_fit_predict ~1.5 %,
    # model_selection::tests::test_cross_val_predict_knn): a 160/161 run is retried (up to 3 runs)
    for attempt in range(3):
        rc, out = sh(["cargo", "test", "--lib", "--offline"] + feat, cwd=wt)
        unit = results(out)
        unit_ok = rc == 0 and " 0 failed" in unit
        if unit_ok:
            break
    shutil.copy(demo, os.path.join(wt, "tests", "seed_demo.rs")) if os.path.isdir(os.path.join(wt, "tests")) else (os.makedirs(os.path.join(wt, "tests")), shutil.copy(demo, os.path.join(wt, "tests", "seed_demo.rs")))
    rc1, out1 = sh(["cargo", "test", "--offline", "--test", "seed_demo"] + feat, cwd=wt)
    with_change = results(out1) or out1[-300:]
    sh(["git", "apply", "-R", patch], cwd=wt)
    rc2, out2 = sh(["cargo", "test", "--offline", "--test", "seed_demo"] + feat, cwd=wt)
    without_change = results(out2) or out2[-300:]
    os.remove(os.path.join(wt, "tests", "seed_demo.rs"))
    valid = unit_ok and rc1 != 0 and "FAILED" in out1 and rc2 == 0
    print("unit suite with change :", unit)
    print("demo with change       :", with_change)
    print("demo without change    :", without_change)
    print("seed valid             :", valid)
    verdict["verified"] = {"unit_tests_with_change": unit, "demo_with_change": with_change, "demo_without_change": without_change,
                           "commands": ["git apply patch.diff", "cargo test --lib --offline " + " ".join(feat),
                                        "cp demo.rs tests/seed_demo.rs && cargo test --offline --test seed_demo " + " ".join(feat),
                                        "git apply -R patch.diff && cargo test --offline --test seed_demo " + " ".join(feat),
                                        "git apply patch.diff && VERIF_REPO=<worktree> ./check %s" % pid]}
    if not valid and "--keep-anyway" not in sys.argv:
        print("NOT a valid seed; nothing stored"); sys.exit(4)
    sh(["git", "apply", patch], cwd=wt)
    shutil.rmtree(env["CARGO_TARGET_DIR"], ignore_errors=True)
    e2 = dict(os.environ, VERIF_REPO=wt)
    rc, out = sh([os.path.join(ROOT, "check"), pid, "--tier", "quick"], cwd=ROOT, timeout=6000, e=e2)
    vio = [l for l in out.splitlines() if l.startswith("VIOLATION")]
    stage = "none"
    if vio:
        stage = "no-failing-input-found (proof/correspondence only)" if all("no-failing-input-found" in v for v in vio) else "failing input (concrete replay)"
    corr_line = [l for l in out.splitlines() if "correspondence:" in l]
    print("check exit", rc, "| violations", len(vio), "| stage:", stage)
    print("\n".join(out.splitlines()[-8:]))
    replay_sample = None
    m = re.search(r"replay=(\S+)", vio[0]) if vio else None
    if m and os.path.exists(m.group(1)):
        replay_sample = json.load(open(m.group(1)))
        s = json.dumps(replay_sample)
        if len(s) > 3000:
            replay_sample = {"truncated": s[:3000]}
    verdict["check_result"] = {"exit": rc, "violation_lines": len(vio), "caught_by": stage, "correspondence": corr_line[-1] if corr_line else "",
                               "first_violation": vio[0] if vio else None, "first_replay": replay_sample}
    notes = open(os.path.join(src, "notes.md")).read() if os.path.exists(os.path.join(src, "notes.md")) else ""
    verdict["needs_to_manifest"] = notes[:1500]
    dst = os.path.join(ROOT, "seeded", sid)
    os.makedirs(dst, exist_ok=True)
    for f in ("patch.diff", "demo.rs", "notes.md"):
        if os.path.exists(os.path.join(src, f)):
            shutil.copy(os.path.join(src, f), os.path.join(dst, f))
    json.dump(verdict, open(os.path.join(dst, "meta.json"), "w"), indent=1)
    print("stored in", dst)
finally:
    cleanup()
