#!/usr/bin/env python3
"""Prints the prompt for an *extension* builder: the check for the property exists and passes; the job is to
prove more (statements currently kept as `Definition ..._full_statement : Prop`) and tighten model/code tie."""
import json, sys
pid = sys.argv[1]
targets = sys.argv[2]
p = [json.loads(l) for l in open('/verif/properties.jsonl') if json.loads(l)['id'] == pid][0]
print(f"""You are an extension builder for a formal-verification framework in /verif for the Rust crate in /repo (smartcore-dev, a pure-Rust ML library). The complete check for property {pid} already exists, is registered and PASSES (`./check {pid}`); your job is to make it prove MORE, without ever breaking it.

FIRST read /verif/BUILDING.md completely (conventions, commands, hard rules: which files you own — those of {pid} only —, no Admitted/Axiom/admit, never mutate or commit /repo, no false alarms, never run coqc by hand inside coq/theories). Then read coq/theories/Properties/{pid}.v, coq/theories/{pid}/*.v, meta/{pid}.json and DESIGN.md's section for {pid} (`grep -n "### {pid}" /verif/DESIGN.md`), and the Rust code the property is anchored in.

Property {pid}: {p['title']}
Statement: {p['statement']}
Quantifier: {p['quantifier']['text']}

Extension targets, in order of priority:
{targets}

Rules: add new proof files (coq/theories/{pid}/Proofs<Something>.v) rather than rewriting existing ones; when a target is proved, turn its `Definition ..._full_statement` in Properties/{pid}.v into a `Theorem {pid}_... ` closed by `exact <lemma>` (keep the statement at full strength; if you can only prove a weaker version, add it as `{pid}_..._partial` and leave the full Definition in place with a comment saying exactly what is missing), add a satisfiability `Example`, and update meta/{pid}.json (level_text / level_note) so that it says truthfully what is now proved and what is still only validated per run. Every file must compile in < 90 s; wrap long commands in `timeout`. After every completed target run `./check {pid}` (must end OK) — the tree must ALWAYS be left in a state where `./check {pid}` passes, because the coordinator commits and runs it at arbitrary moments. Do not touch the harness unless a target says so. Do not commit. Work budget: about 3 hours; if a target resists after a serious attempt (document the obstacle in a comment next to the Definition), move to the next. Final message: which targets were proved (theorem names), which were not and why, and the output of the last `./check {pid}`.""")
