#!/usr/bin/env python3
"""Prints the per-property theorem/axiom table of DESIGN.md section 10.6 from evidence/*.json."""
import json, glob
tot = free = 0
for f in sorted(glob.glob('/verif/evidence/C*.json')):
    e = json.load(open(f)); c = e['coverage']; apt = c.get('axioms_per_theorem', {})
    ax = set(a for t, al in apt.items() for a in al)
    fa = sorted(a for a in ax if a.startswith('FloatAxioms.'))
    nfree = sum(1 for t, a in apt.items() if not a)
    tot += c['obligations']; free += nfree
    print("| %s | %d | %d | %s | %s |" % (e['property_id'], c['obligations'], nfree,
          'yes' if any(a.startswith('ClassicalDedekindReals') for a in ax) else 'no', ', '.join(x.split('.')[1] for x in fa) or '—'))
print("total", tot, "axiom-free", free)
