#!/bin/bash
# usage: tools/verify_seed.sh C18_1 [features]   -- verifies a seeded mutation delivered in /tmp/seed_out/<id>/ and stores it
# under /verif/seeded/<id>/ ; then runs the property's check against it (VERIF_REPO scratch mode).
set -u
id=$1; feat=${2:-}; pid=${id%%_*}
src=/tmp/seed_out/$id; wt=/tmp/vs_$id
[ -f $src/patch.diff ] || { echo "no patch for $id"; exit 2; }
git -C /repo worktree remove --force $wt 2>/dev/null; rm -rf $wt $wt.verif
git -C /repo worktree add -q $wt HEAD || exit 2
cd $wt
fl=""; [ -n "$feat" ] && fl="--features $feat"
git apply $src/patch.diff || { echo "PATCH DOES NOT APPLY"; exit 2; }
unit=$(cargo test --lib --offline $fl 2>&1 | grep -E '^test result' | head -1)
mkdir -p tests; cp $src/demo.rs tests/seed_demo.rs
demo_with=$(cargo test --offline $fl --test seed_demo 2>&1 | grep -E '^test result|error(\[|:)' | head -2 | tr '\n' ' ')
git apply -R $src/patch.diff
demo_without=$(cargo test --offline $fl --test seed_demo 2>&1 | grep -E '^test result|error(\[|:)' | head -2 | tr '\n' ' ')
rm -rf tests
git apply $src/patch.diff
echo "unit: $unit"; echo "demo with change: $demo_with"; echo "demo without: $demo_without"
cd /verif
chk=$(VERIF_REPO=$wt timeout 3000 ./check $pid 2>&1 | tail -6)
echo "$chk"
mkdir -p /verif/seeded/$id
cp $src/patch.diff $src/demo.rs /verif/seeded/$id/; cp $src/notes.md /verif/seeded/$id/notes.md 2>/dev/null
caught=$(echo "$chk" | grep -c '^VIOLATION')
nfi=$(echo "$chk" | grep -c 'no-failing-input-found')
python3 - "$id" "$pid" "$unit" "$demo_with" "$demo_without" "$caught" "$nfi" "$feat" <<'PY'
import json,sys,re
id,pid,unit,dw,dwo,caught,nfi,feat=sys.argv[1:]
notes=open('/verif/seeded/%s/notes.md'%id).read() if __import__('os').path.exists('/verif/seeded/%s/notes.md'%id) else ''
meta={"id":id,"property":pid,"features":feat,
 "needs_to_manifest":notes[:1500],
 "verified":{"unit_tests_with_change":unit,"demo_with_change":dw,"demo_without_change":dwo,
   "commands":["git apply patch.diff","cargo test --lib --offline","cp demo.rs tests/seed_demo.rs && cargo test --offline --test seed_demo","git apply -R patch.diff && cargo test --offline --test seed_demo","VERIF_REPO=<worktree> ./check %s"%pid]},
 "check_result":{"violation_lines":int(caught),"with_concrete_replay":int(caught)>0 and int(nfi)==0}}
json.dump(meta,open('/verif/seeded/%s/meta.json'%id,'w'),indent=1)
print("stored /verif/seeded/%s (caught=%s, no-failing-input=%s)"%(id,caught,nfi))
PY
git -C /repo worktree remove --force $wt; rm -rf $wt $wt.verif
